"""E0 -- symbolic executor: proxies over z3 terms + solver-pruned path forking + obligations.

The real code from the scratch copy of /repo is executed on proxy objects.  Whenever Python needs a
concrete truth value of a symbolic condition (``SymBool.__bool__``) the explorer asks z3 which
outcomes are feasible under the path condition, follows one and queues the other; the harness is
re-executed from scratch for every path (decision-prefix replay).  At the end of a path the harness
returns obligations (z3 Bool terms) that are discharged in a fresh, non-incremental solver.
"""
import itertools
import time
from fractions import Fraction

import z3


class Abort(BaseException):
    """path abandoned (infeasible / cut); BaseException so that `except Exception` in the real code cannot swallow it"""


class Cut(Abort):
    """depth cut while enumerating sub-tree prefixes"""


class Outside(BaseException):
    """the path left the region the model describes (inf/nan, hard masks, ...)"""


class Inconclusive(BaseException):
    pass


FEAS_TIMEOUT_MS = 1500
FEAS2_TIMEOUT_MS = 20000


class Ctx(object):
    def __init__(self, prefix, work, seed=0, depth_cut=None):
        self.solver = z3.Solver()
        self.solver.set('timeout', FEAS_TIMEOUT_MS)
        self.solver.set('random_seed', seed)
        self.prefix = list(prefix)
        self.pos = 0
        self.path = []
        self.work = work
        self.nq = 0
        self.decisions = 0
        self.depth_cut = depth_cut
        self._fresh = itertools.count()
        self.side = []          # side constraints introduced by the model (sqrt, ...)
        self.defs = []          # (defined fresh var name, defining constraint)
        self.inputs = {}        # name -> z3 var (for model extraction), insertion ordered
        self.assumptions = []
        self.runs = []          # records of calls into the real code, validated per path
        self.maybe = 0          # decisions taken with an `unknown` feasibility answer
        self.solver_s = 0.0
        self._implied_stack = [{}]
        self._sqrts = []
        self.poison = {}         # registered non-finite values (plain division by zero)
        self._fold = {}
        self._extra_depth = 0

    # -- declaring inputs
    def real(self, name, integer=False):
        v = z3.Real(name)
        self.inputs[name] = v
        if integer:
            self.assume(z3.IsInt(v))
        return v

    def int(self, name):
        v = z3.Int(name)
        self.inputs[name] = v
        return v

    def bool(self, name):
        v = z3.Bool(name)
        self.inputs[name] = v
        return v

    def string(self, name):
        v = z3.String(name)
        self.inputs[name] = v
        return v

    def assume(self, e):
        self.solver.add(e)
        self.assumptions.append(e)

    def fresh(self, base, sort='real'):
        n = '%s!%d' % (base, next(self._fresh))
        return {'real': z3.Real, 'int': z3.Int, 'bool': z3.Bool, 'str': z3.String}[sort](n)

    def define(self, var, constraint):
        """`var` is a fresh total-function value (sqrt ...) characterised by `constraint`"""
        self.side.append(constraint)
        self.defs.append((var.decl().name(), constraint))
        self.solver.add(constraint)

    def sqrt(self, radicand):
        """fresh r with r >= 0 and r*r == radicand; structurally equal radicands share one r"""
        rad = z3.simplify(radicand, som=True)
        for old, r in self._sqrts:
            if old.eq(rad):
                return r
            d = z3.simplify(old - rad, som=True)
            if z3.is_rational_value(d) and d.numerator_as_long() == 0:
                return r
        r = self.fresh('sqrt')
        self.define(r, z3.And(r >= 0, r * r == rad))
        self._sqrts.append((rad, r))
        return r

    # -- forking
    def decide(self, e):
        if isinstance(e, bool):
            return e
        e = z3.simplify(e)
        if z3.is_true(e):
            return True
        if z3.is_false(e):
            return False
        self.decisions += 1
        if self.pos < len(self.prefix):
            d = self.prefix[self.pos]
        else:
            if self.depth_cut is not None and self.pos >= self.depth_cut:
                raise Cut()
            t0 = time.time()
            t = self._feasible(e)
            f = self._feasible(z3.Not(e))
            self.solver_s += time.time() - t0
            if t == z3.unknown or f == z3.unknown:
                # over-approximate: an `unknown` branch is explored as if feasible; obligations proved
                # under its path condition stay sound, counterexamples are filtered by replay
                self.maybe += 1
            if t != z3.unsat and f != z3.unsat:
                d = True
                self.work.append(self.prefix[:self.pos] + [False])
            elif t != z3.unsat:
                d = True
            elif f != z3.unsat:
                d = False
            else:
                raise Abort("infeasible path")
            self.prefix = self.prefix[:self.pos] + [d]
        self.pos += 1
        c = e if d else z3.Not(e)
        self.path.append(c)
        self.solver.add(c)
        return d

    def _slice(self, e):
        """constraints connected to e through shared variables (cone of influence)"""
        return self.cone(_vars(e))

    def cone(self, varset):
        allc = self.assumptions + self.path
        vs = [(c, _vars(c), None) for c in allc] + [(c, _vars(c), d) for d, c in self.defs]
        need = set(varset)
        chosen = [False] * len(vs)
        changed = True
        while changed:
            changed = False
            for i, (c, v, d) in enumerate(vs):
                if chosen[i]:
                    continue
                if (d in need) if d is not None else (v & need):
                    chosen[i] = True
                    if not v <= need:
                        need |= v
                    changed = True
        return [c for (c, v, d), ch in zip(vs, chosen) if ch]

    def _feasible(self, e):
        s = self.solver
        self.nq += 1
        s.push()
        s.add(e)
        r = s.check()
        s.pop()
        if r != z3.unknown:
            return r
        s2 = z3.Solver()
        s2.set('timeout', FEAS2_TIMEOUT_MS)
        s2.add(*self._slice(e))
        s2.add(e)
        self.nq += 1
        return s2.check()

    def choose_int(self, e, lo, hi):
        """value-fork a symbolic int over [lo, hi]"""
        for v in range(lo, hi + 1):
            if self.decide(e == v):
                return v
        raise Outside("symbolic integer outside [%d, %d]" % (lo, hi))

    def choice(self, name, n):
        """solver-visible nondeterministic choice of an index in range(n) (forked)"""
        v = z3.Int(name)
        self.inputs[name] = v
        self.assume(z3.And(v >= 0, v < n))
        if name in PINS:
            # this job explores only the slice of the space in which the choice has the pinned value (the plan lists
            # one job per value, so that one enumeration is spread over several worker processes)
            if PINS[name] >= n:
                raise Abort("pinned choice %s=%d does not exist on this path" % (name, PINS[name]))
            self.assume(v == PINS[name])
            return PINS[name]
        for i in range(n - 1):
            if self.decide(v == i):
                return i
        return n - 1

    def base(self):
        return list(self.assumptions) + list(self.path) + list(self.side)

    def implied(self, cond, timeout=300):
        """True / False when the path condition implies / refutes cond (cheap incremental queries), else None"""
        k = cond.get_id()
        for lvl in self._implied_stack:
            # a definite answer derived under fewer assumptions stays valid under more
            if k in lvl and (lvl[k][1] is not None or lvl is self._implied_stack[-1]):
                return lvl[k][1]
        s = self.solver
        s.set('timeout', timeout)
        res = None
        try:
            s.push()
            s.add(z3.Not(cond))
            r = s.check()
            s.pop()
            self.nq += 1
            if r == z3.unsat:
                res = True
            else:
                s.push()
                s.add(cond)
                r = s.check()
                s.pop()
                self.nq += 1
                if r == z3.unsat:
                    res = False
        finally:
            s.set('timeout', FEAS_TIMEOUT_MS)
        self._implied_stack[-1][k] = (cond, res)
        return res

    def fold(self, t):
        """contextual simplification: resolve if-then-else conditions (and Boolean connective arguments that
        are comparisons) already decided by the path condition, bottom-up.  Keeps the term equivalent under
        the path condition; turns the ite-phrased reference terms into plain polynomials on most paths."""
        memo = self._fold if not self._extra_depth else {}

        def go(e):
            k = e.get_id()
            if k in memo:
                return memo[k][1]
            if z3.is_const(e) or z3.is_var(e) or not z3.is_app(e):
                memo[k] = (e, e)
                return e
            dk = e.decl().kind()
            ch = e.children()
            if dk == z3.Z3_OP_ITE:
                c = go(ch[0])
                c = z3.simplify(c)
                if z3.is_true(c):
                    r = go(ch[1])
                elif z3.is_false(c):
                    r = go(ch[2])
                else:
                    v = self.implied(c)
                    if v is True:
                        r = go(ch[1])
                    elif v is False:
                        r = go(ch[2])
                    else:
                        r = z3.If(c, go(ch[1]), go(ch[2]))
            else:
                nch = [go(c) for c in ch]
                if all(a.eq(b) for a, b in zip(ch, nch)):
                    r = e
                else:
                    r = e.decl()(*nch)
            memo[k] = (e, r)
            return r
        return go(t)


_VARS_CACHE = {}


def _vars(e):
    k = e.get_id()
    hit = _VARS_CACHE.get(k)
    r = hit[1] if hit is not None else None
    if r is None:
        r = set()
        seen = set()
        stack = [e]
        while stack:
            t = stack.pop()
            i = t.get_id()
            if i in seen:
                continue
            seen.add(i)
            if z3.is_const(t) and t.decl().kind() == z3.Z3_OP_UNINTERPRETED:
                r.add(t.decl().name())
            else:
                stack.extend(t.children())
        r = frozenset(r)
        if len(_VARS_CACHE) > 200000:
            _VARS_CACHE.clear()
        _VARS_CACHE[k] = (e, r)     # holding e keeps its AST id from being reused
    return r


CTX = None


def ctx():
    return CTX


def frac(x):
    if isinstance(x, bool):
        return z3.RealVal(int(x))
    if isinstance(x, int):
        return z3.RealVal(x)
    if isinstance(x, float):
        f = Fraction(x)
        return z3.RealVal(str(f.numerator)) / z3.RealVal(str(f.denominator)) if f.denominator != 1 else z3.RealVal(str(f.numerator))
    if isinstance(x, Fraction):
        return z3.RealVal(str(x.numerator)) / z3.RealVal(str(x.denominator))
    raise TypeError(type(x))


def lift(x):
    if isinstance(x, SymNum):
        return x.e
    if isinstance(x, SymBool):
        return z3.If(x.e, z3.RealVal(1), z3.RealVal(0))
    if z3.is_expr(x):
        return x
    if hasattr(x, 'item') and not isinstance(x, (int, float)):
        x = x.item()
    return frac(x)


def kind_of(x):
    if isinstance(x, SymNum):
        return x.kind
    if isinstance(x, (bool, SymBool)):
        return 'b'
    if isinstance(x, int):
        return 'i'
    if hasattr(x, 'dtype'):
        return 'f' if x.dtype.kind == 'f' else ('b' if x.dtype.kind == 'b' else ('u' if x.dtype.kind == 'u' else 'i'))
    return 'f'


U64 = 2 ** 64


def wrap_u64(t):
    """value of an unsigned 64-bit result whose mathematical value is t (only the wrap below zero is modelled; inputs
    are bounded so that nothing reaches 2^64 from below)"""
    return z3.If(t < 0, t + z3.RealVal(U64), t)


PINS = {}


class SymBool(object):
    __slots__ = ('e',)

    def __init__(self, e):
        self.e = e

    def __bool__(self):
        return CTX.decide(self.e)

    def __invert__(self):
        return SymBool(z3.Not(self.e))

    def __and__(self, o):
        return SymBool(z3.And(self.e, o.e if isinstance(o, SymBool) else z3.BoolVal(bool(o))))

    __rand__ = __and__

    def __or__(self, o):
        return SymBool(z3.Or(self.e, o.e if isinstance(o, SymBool) else z3.BoolVal(bool(o))))

    __ror__ = __or__

    def __eq__(self, o):
        return SymBool(self.e == (o.e if isinstance(o, SymBool) else z3.BoolVal(bool(o))))

    def __ne__(self, o):
        return SymBool(self.e != (o.e if isinstance(o, SymBool) else z3.BoolVal(bool(o))))

    __hash__ = None

    def __repr__(self):
        return 'SymBool(%s)' % self.e


def _cmp(f):
    def g(self, o):
        if isinstance(o, (str, bytes, list, tuple, dict, type(None))):
            return NotImplemented
        try:
            return SymBool(f(self.e, lift(o)))
        except TypeError:
            return NotImplemented
    return g


class SymNum(object):
    """symbolic real number; kind 'f' (float64) or 'i' (integer valued)"""
    __slots__ = ('e', 'kind', 'np')

    def __init__(self, e, kind='f', np=False):
        self.e = e
        self.kind = kind
        self.np = np        # True: behaves like a numpy scalar (x/0 -> inf, no ZeroDivisionError)

    def __hash__(self):
        return 0

    def _k(self, o):
        ko = kind_of(o)
        if self.kind == 'u' or ko == 'u':
            # numpy 1.x scalars: uint64 with uint64 / bool stays uint64 (and wraps), with any other number -> float64
            if {self.kind, ko} <= {'u', 'b'}:
                return 'u'
            return 'f'
        return 'i' if (self.kind == 'i' and ko in ('i', 'b')) else 'f'

    def _np(self, o):
        return self.np or bool(getattr(o, 'np', False))

    def _bin(self, o, f):
        if hasattr(o, '__array_priority__') or hasattr(o, '__masked_constant__'):
            return NotImplemented
        try:
            t = lift(o)
        except TypeError:
            return NotImplemented
        k = self._k(o)
        r = f(self.e, t)
        if k == 'u':
            r = wrap_u64(r)
        return SymNum(r, k, self._np(o))

    def __add__(self, o):
        return self._bin(o, lambda a, b: a + b)

    def __radd__(self, o):
        return self._bin(o, lambda a, b: b + a)

    def __sub__(self, o):
        return self._bin(o, lambda a, b: a - b)

    def __rsub__(self, o):
        return self._bin(o, lambda a, b: b - a)

    def __mul__(self, o):
        return self._bin(o, lambda a, b: a * b)

    def __rmul__(self, o):
        return self._bin(o, lambda a, b: b * a)

    def __truediv__(self, o):
        if hasattr(o, '__array_priority__') or hasattr(o, '__masked_constant__'):
            return NotImplemented
        try:
            d = lift(o)
        except TypeError:
            return NotImplemented
        if CTX.decide(d == 0):
            if self._np(o):
                raise Outside("numpy scalar division by zero (inf/nan is outside the real model)")
            raise ZeroDivisionError("float division by zero")
        return SymNum(self.e / d, 'f', self._np(o))

    def __rtruediv__(self, o):
        try:
            lift(o)
        except TypeError:
            return NotImplemented
        if CTX.decide(self.e == 0):
            if self._np(o):
                raise Outside("numpy scalar division by zero (inf/nan is outside the real model)")
            raise ZeroDivisionError("float division by zero")
        return SymNum(lift(o) / self.e, 'f', self._np(o))

    def __neg__(self):
        if self.kind == 'u':
            return SymNum(wrap_u64(-self.e), 'u', self.np)
        return SymNum(-self.e, self.kind, self.np)

    def __pos__(self):
        return self

    def __abs__(self):
        return SymNum(z3.If(self.e < 0, -self.e, self.e), self.kind, self.np)

    __lt__ = _cmp(lambda a, b: a < b)
    __le__ = _cmp(lambda a, b: a <= b)
    __gt__ = _cmp(lambda a, b: a > b)
    __ge__ = _cmp(lambda a, b: a >= b)
    __eq__ = _cmp(lambda a, b: a == b)
    __ne__ = _cmp(lambda a, b: a != b)

    def __bool__(self):
        return CTX.decide(self.e != 0)

    def is_integer(self):
        return SymBool(z3.IsInt(self.e))

    def __index__(self):
        if self.kind not in ('i', 'u'):
            raise TypeError("'float' object cannot be interpreted as an integer")
        return CTX.choose_int(self.e, -8, 8)

    def __float__(self):
        raise Inconclusive("float() of a symbolic number reached a C boundary")

    def __int__(self):
        raise Inconclusive("int() of a symbolic number reached a C boundary")

    def __repr__(self):
        return 'SymNum(%s,%s)' % (self.e, self.kind)

    __str__ = __repr__

    def __format__(self, spec):
        return repr(self)


def symfloat(x=0.0):
    """stand-in for builtin float in analysed modules"""
    if isinstance(x, SymNum):
        return SymNum(x.e, 'f', x.np)
    return float(x)


def trunc_term(e):
    t = z3.ToInt(e)   # floor
    return z3.ToReal(z3.If(z3.And(e < 0, z3.ToReal(t) != e), t + 1, t))


def symint(x=0):
    if isinstance(x, SymNum):
        if x.kind == 'i':
            return x
        return SymNum(trunc_term(x.e), 'i', x.np)
    return int(x)


def z3_unescape(s):
    """z3 prints non-printable / non-ASCII / backslash characters of string values as \\u{hex}"""
    import re as _re
    return _re.sub(r'\\u\{([0-9a-fA-F]+)\}', lambda mo: chr(int(mo.group(1), 16)), s)


def model_value(m, v):
    r = m.eval(v, model_completion=True)
    if z3.is_true(r):
        return True
    if z3.is_false(r):
        return False
    if z3.is_int_value(r):
        return r.as_long()
    if z3.is_rational_value(r):
        return Fraction(r.numerator_as_long(), r.denominator_as_long())
    if z3.is_algebraic_value(r):
        a = r.approx(20)
        return Fraction(a.numerator_as_long(), a.denominator_as_long())
    if z3.is_string_value(r):
        return z3_unescape(r.as_string())
    r2 = z3.simplify(r)
    if z3.is_rational_value(r2):
        return Fraction(r2.numerator_as_long(), r2.denominator_as_long())
    if z3.is_true(r2):
        return True
    if z3.is_false(r2):
        return False
    return str(r)


DYADIC_BITS = 6
DYADIC_RANGE = 1 << 12


def nice_model(ctx, extra=(), timeout=15000, margin=None):
    """model of the path condition preferring dyadic rationals of small magnitude for real inputs,
    so that the trip from reals to doubles is exact for the inputs"""
    base = ctx.base() + list(extra)
    for tier in (0, 1):
        s = z3.Solver()
        s.set('timeout', min(timeout, 2500) if tier == 0 else timeout)
        s.add(*base)
        if tier == 0:
            for name, v in ctx.inputs.items():
                if v.sort() == z3.RealSort():
                    k = z3.Int('dy!' + name)
                    s.add(v * (1 << DYADIC_BITS) == z3.ToReal(k), k >= -DYADIC_RANGE, k <= DYADIC_RANGE)
        r = s.check()
        if r == z3.sat:
            m = s.model()
            return m, tier == 0
    return None, False


class PathResult(object):
    __slots__ = ('out', 'ctx', 'model', 'dyadic', 'prefix')


class Result(object):
    def __init__(self):
        self.paths = 0
        self.decisions = 0
        self.queries = 0
        self.obligations = 0
        self.discharged = 0
        self.cex = []       # dicts
        self.unknown = []
        self.solver_s = 0.0
        self.aborted = 0
        self.maybe = 0
        self.outcomes = {}
        self.frontier = []
        self.exhausted = True


def first_ite_condition(t):
    """condition of the first if-then-else (pre-order) whose condition is not a constant"""
    seen = set()
    stack = [t]
    while stack:
        e = stack.pop()
        i = e.get_id()
        if i in seen or not z3.is_app(e):
            continue
        seen.add(i)
        if e.decl().kind() == z3.Z3_OP_ITE:
            c = e.arg(0)
            if not (z3.is_true(c) or z3.is_false(c)):
                return c
        stack.extend(reversed(e.children()))
    return None


def prove(ctx, o, cone, seed, timeout, depth=0, extras=(), budget=None):
    """decide obligation o under the path condition by case-splitting on undecided if-then-else conditions
    (each leaf is an ite-free query); -> (status, model, queries)"""
    if budget is None:
        budget = [64]
    f = z3.simplify(ctx.fold(o), som=True)
    if z3.is_true(f):
        return 'unsat', None, 0
    c = first_ite_condition(f) if depth < 10 and budget[0] > 0 else None
    if c is None:
        r, m = _solve(list(cone) + list(extras) + [z3.Not(f)], seed, timeout)
        return ('unsat' if r == z3.unsat else ('sat' if r == z3.sat else 'unknown')), m, 1
    budget[0] -= 1
    nq = 0
    worst = 'unsat'
    for lit in (c, z3.Not(c)):
        ctx.solver.push()
        ctx.solver.add(lit)
        ctx._extra_depth += 1
        ctx._implied_stack.append({})
        try:
            ctx.solver.set('timeout', 300)
            feasible = ctx.solver.check()
            ctx.solver.set('timeout', FEAS_TIMEOUT_MS)
            nq += 1
            if feasible == z3.unsat:
                continue
            st, m, q = prove(ctx, f, cone, seed, timeout, depth + 1, tuple(extras) + (lit,), budget)
            nq += q
        finally:
            ctx._extra_depth -= 1
            ctx._implied_stack.pop()
            ctx.solver.pop()
        if st == 'sat':
            return 'sat', m, nq
        if st == 'unknown':
            worst = 'unknown'
    return worst, None, nq


def _solve(cons, seed, timeout):
    s = z3.Solver()
    s.set('timeout', timeout)
    s.set('random_seed', seed)
    s.add(*cons)
    r = s.check()
    return r, (s.model() if r == z3.sat else None)


def check_obligations(ctx, obs, seed=0, timeout=60000):
    """-> list of (label, status, model-or-None); status in unsat/sat/unknown.
    Every obligation is decided against the cone of influence of its variables only (constraints of the
    path that share no variable, transitively, with the obligation are dropped: sound, because a path whose
    remaining constraints were unsatisfiable would be infeasible as a whole).  Obligations with the same
    cone are batched into one query; on failure of the batch they are decided one by one."""
    out = {}
    nq = 0
    groups = {}
    order = []
    obs = [((i, label), o) for i, (label, o) in enumerate(obs)]
    for label, o in obs:
        o = z3.simplify(o)
        if not z3.is_true(o):
            o = z3.simplify(ctx.fold(o), som=True)
        if z3.is_true(o):
            out[label] = ('unsat', None)
            continue
        cone = ctx.cone(_vars(o))
        key = frozenset(c.get_id() for c in cone)
        if key not in groups:
            groups[key] = (cone, [])
            order.append(key)
        groups[key][1].append((label, o))
    for key in order:
        cone, items = groups[key]
        if len(items) > 1:
            r, _ = _solve(list(cone) + [z3.Not(z3.And(*[o for _, o in items]))], seed, min(timeout, 2000))
            nq += 1
            if r == z3.unsat:
                for label, _ in items:
                    out[label] = ('unsat', None)
                continue
        for label, o in items:
            st, m, q = prove(ctx, o, cone, seed, timeout)
            nq += q
            out[label] = (st, m)
    res = []
    for label, _ in obs:
        st, m = out[label]
        res.append((label[1], st, m))
    return res, nq


def explore(harness, max_paths=20000, seed=0, ob_timeout=60000, start=None, depth_cut=None,
            on_path=None, deadline=None):
    """Run `harness(ctx)` over all feasible decision paths.

    harness returns dict(outcome=str, obligations=[(label, z3 bool)], ...).  `on_path(ctx, out, statuses)`
    is called for every finished path (per-path validation / counterexample extraction live there).
    `start` = list of decision prefixes to explore below (default: the root); `depth_cut` = only enumerate
    prefixes of that many free decisions (result.frontier), without evaluating obligations.
    """
    global CTX
    res = Result()
    work = [list(p) for p in (start if start is not None else [[]])]
    while work:
        if res.paths + res.aborted >= max_paths or (deadline is not None and time.time() > deadline):
            res.exhausted = False
            break
        prefix = work.pop()
        c = Ctx(prefix, work, seed, depth_cut)
        CTX = c
        try:
            try:
                out = harness(c)
            except Cut:
                res.frontier.append(list(c.prefix[:c.pos]))
                continue
            except Abort:
                res.aborted += 1
                continue
            except Outside as e:
                out = {'outcome': 'outside:' + str(e)[:60], 'obligations': []}
            res.paths += 1
            res.decisions += c.decisions
            res.maybe += c.maybe
            if depth_cut is not None:
                res.frontier.append(list(c.prefix[:c.pos]))
                continue
            oc = out.get('outcome', 'ok')
            res.outcomes[oc] = res.outcomes.get(oc, 0) + 1
            obs = out.get('obligations', [])
            res.obligations += len(obs)
            t0 = time.time()
            statuses, nq = check_obligations(c, obs, seed, ob_timeout)
            c.nq += nq
            res.discharged += sum(1 for _, st, _ in statuses if st == 'unsat')
            for label, st, _ in statuses:
                if st == 'unknown':
                    res.unknown.append({'label': label, 'prefix': list(c.prefix)})
            c.solver_s += time.time() - t0
            if on_path is not None:
                on_path(c, out, statuses, res)
            res.queries += c.nq
            res.solver_s += c.solver_s
        finally:
            CTX = None
    return res


# ---------------------------------------------------------------------------------------------- symbolic strings
def _sterm(x):
    if isinstance(x, SymStr):
        return x.e
    if isinstance(x, str):
        return z3.StringVal(x)
    raise TypeError(type(x))


def ci_regex(word):
    """regex matching `word` in any letter case"""
    parts = []
    for ch in word:
        if ch.lower() != ch.upper():
            parts.append(z3.Union(z3.Re(ch.lower()), z3.Re(ch.upper())))
        else:
            parts.append(z3.Re(ch))
    return z3.Concat(*parts) if len(parts) > 1 else parts[0]


class _Lowered(object):
    """value.lower(): only comparison with a constant is supported (case-insensitive regex membership)"""

    def __init__(self, s, upper=False):
        self.s = s
        self.upper = upper

    def __eq__(self, o):
        if isinstance(o, str) and not isinstance(o, SymStr):
            if (o.upper() if self.upper else o.lower()) != o:
                return False
            return SymBool(z3.InRe(self.s.e, ci_regex(o)))
        return NotImplemented

    def __ne__(self, o):
        r = self.__eq__(o)
        if r is NotImplemented:
            return r
        return (not r) if isinstance(r, bool) else ~r

    __hash__ = None

    def __contains__(self, o):
        raise Inconclusive("substring test on a lower-cased symbolic string")


FORMAT_OK = False


class SymStr(str):
    """symbolic string: a str subclass (so isinstance checks and str-typed APIs accept it) whose payload is an
    unmistakable marker; every semantic operation is overridden to build z3 terms.  C-level functions that would
    read the payload (int(), float(), os.path.*, open, str.format of a container) must be shadowed in the analysed module."""
    MARK = '⟪SYMSTR⟫'

    def __new__(cls, e):
        self = str.__new__(cls, cls.MARK)
        self.e = e
        return self

    @staticmethod
    def const(s):
        return SymStr(z3.StringVal(s))

    def __hash__(self):
        return 0

    def __eq__(self, o):
        if isinstance(o, str):
            return SymBool(self.e == _sterm(o))
        if isinstance(o, _Lowered):
            return NotImplemented
        return False

    def __ne__(self, o):
        if isinstance(o, str):
            return SymBool(self.e != _sterm(o))
        return True

    def __add__(self, o):
        if isinstance(o, str):
            return SymStr(z3.Concat(self.e, _sterm(o)))
        return NotImplemented

    def __radd__(self, o):
        if isinstance(o, str):
            return SymStr(z3.Concat(_sterm(o), self.e))
        return NotImplemented

    def startswith(self, p, *a):
        if a:
            raise Inconclusive("startswith with offsets")
        if isinstance(p, tuple):
            return SymBool(z3.Or(*[z3.PrefixOf(_sterm(x), self.e) for x in p]))
        return SymBool(z3.PrefixOf(_sterm(p), self.e))

    def endswith(self, p, *a):
        if a:
            raise Inconclusive("endswith with offsets")
        return SymBool(z3.SuffixOf(_sterm(p), self.e))

    def __contains__(self, o):
        return CTX.decide(z3.Contains(self.e, _sterm(o)))

    def lower(self):
        return _Lowered(self)

    def upper(self):
        return _Lowered(self, True)

    def __len__(self):
        return CTX.choose_int(z3.Length(self.e), 0, 12)

    def __bool__(self):
        return CTX.decide(z3.Length(self.e) > 0)

    def __str__(self):
        return self

    def __repr__(self):
        return 'SymStr(%s)' % self.e

    def __format__(self, spec):
        if FORMAT_OK:
            return self.MARK       # only error messages are formatted in this analysis (set by the property module)
        raise Inconclusive("a symbolic string reached str.format")

    def __mod__(self, o):
        raise Inconclusive("a symbolic string reached % formatting")

    def split(self, sep=None, maxsplit=-1):
        """split on a concrete separator; the number of pieces is forked (bounded by 8)"""
        if not isinstance(sep, str) or isinstance(sep, SymStr) or not sep:
            raise Inconclusive("split on whitespace / symbolic separator")
        out, rest, n = [], self.e, 0
        sv = z3.StringVal(sep)
        while True:
            if n >= 8 or (maxsplit >= 0 and n >= maxsplit) or not CTX.decide(z3.Contains(rest, sv)):
                out.append(SymStr(rest))
                return out
            i = z3.IndexOf(rest, sv, z3.IntVal(0))
            out.append(SymStr(z3.SubString(rest, z3.IntVal(0), i)))
            rest = z3.SubString(rest, i + len(sep), z3.Length(rest) - i - len(sep))
            n += 1

    def count(self, sub, *a):
        """number of non-overlapping occurrences of a concrete substring, as a symbolic integer (the length of
        the string is forked, then the count is a sum over positions: exact for 1-2 character needles)"""
        if a or not isinstance(sub, str) or isinstance(sub, SymStr) or not (1 <= len(sub) <= 2):
            raise Inconclusive("count() with this needle is not modelled")
        n = len(self)
        terms = []
        for i in range(n - len(sub) + 1):
            hit = z3.SubString(self.e, z3.IntVal(i), z3.IntVal(len(sub))) == z3.StringVal(sub)
            if len(sub) == 2 and sub[0] == sub[1] and i > 0:
                raise Inconclusive("overlapping needle")
            terms.append(z3.If(hit, z3.RealVal(1), z3.RealVal(0)))
        return SymNum(z3.Sum(*terms) if len(terms) > 1 else (terms[0] if terms else z3.RealVal(0)), 'i')

    def _strip(self, chars, left, right):
        """strip()/lstrip()/rstrip(): the result is a fresh string r with  self == l ++ r ++ t,  l and t made only
        of the stripped characters (t / l empty for the one-sided forms) and r not starting / ending with one -
        a total, unique definition, so assuming it constrains nothing else"""
        if chars is None:
            cs = ' \t\n\r\x0b\x0c'
        elif isinstance(chars, SymStr) or not isinstance(chars, str) or not chars:
            raise Inconclusive("strip() with a symbolic / empty character set")
        else:
            cs = chars
        one = z3.Union(*[z3.Re(z3.StringVal(c)) for c in cs]) if len(cs) > 1 else z3.Re(z3.StringVal(cs))
        many = z3.Star(one)
        n = CTX._stripn = getattr(CTX, '_stripn', 0) + 1
        l, r, t = z3.String('strip.l!%d' % n), z3.String('strip.r!%d' % n), z3.String('strip.t!%d' % n)
        empty = z3.StringVal('')
        cons = [self.e == z3.Concat(l, r, t),
                z3.InRe(l, many) if left else l == empty,
                z3.InRe(t, many) if right else t == empty]
        first = z3.SubString(r, z3.IntVal(0), z3.IntVal(1))
        last = z3.SubString(r, z3.Length(r) - 1, z3.IntVal(1))
        if left:
            cons.append(z3.Or(r == empty, z3.Not(z3.InRe(first, one))))
        if right:
            cons.append(z3.Or(r == empty, z3.Not(z3.InRe(last, one))))
        for c in cons:
            CTX.assume(c)
        return SymStr(r)

    def strip(self, chars=None):
        return self._strip(chars, True, True)

    def lstrip(self, chars=None):
        return self._strip(chars, True, False)

    def rstrip(self, chars=None):
        return self._strip(chars, False, True)

    def isdigit(self):
        # within the analysed alphabet (printable ASCII + a few non-ASCII letters) the digits are 0-9
        return SymBool(z3.InRe(self.e, z3.Plus(z3.Range('0', '9'))))

    def isspace(self):
        ws = z3.Union(*[z3.Re(z3.StringVal(c)) for c in ' \t\n\r\x0b\x0c'])
        return SymBool(z3.InRe(self.e, z3.Plus(ws)))

    def _no(self, *a, **k):
        raise Inconclusive("unsupported str method on a symbolic string")
    rsplit = replace = join = encode = find = index = title = capitalize = _no
    isalpha = isalnum = partition = splitlines = zfill = casefold = _no
    __getitem__ = __iter__ = __mul__ = __rmul__ = __lt__ = __le__ = __gt__ = __ge__ = _no


class SymDict(dict):
    """a dict whose lookups work for symbolic keys: membership / get / [] compare the key with every stored key
    through solver-decided equality (forking), instead of relying on hashes"""

    def _find(self, k):
        if not isinstance(k, SymStr):
            return dict.__contains__(self, k), k
        for key in dict.keys(self):
            if isinstance(key, str) and bool(k == key):
                return True, key
        return False, None

    def __contains__(self, k):
        return self._find(k)[0]

    def __getitem__(self, k):
        ok, key = self._find(k)
        if not ok:
            raise KeyError(k)
        return dict.__getitem__(self, key)

    def get(self, k, default=None):
        ok, key = self._find(k)
        return dict.__getitem__(self, key) if ok else default


INT_TEXT = None
FLOAT_TEXT = None


def _number_grammars():
    """accepted-text languages of Python's int(str) and float(str) (documented literal grammars)"""
    global INT_TEXT, FLOAT_TEXT
    if INT_TEXT is not None:
        return
    ws = z3.Star(z3.Union(*[z3.Re(c) for c in ' \t\n\r\x0b\x0c']))
    digit = z3.Range('0', '9')
    digits = z3.Concat(z3.Plus(digit), z3.Star(z3.Concat(z3.Re('_'), z3.Plus(digit))))
    sign = z3.Option(z3.Union(z3.Re('+'), z3.Re('-')))
    INT_TEXT = z3.Concat(ws, sign, digits, ws)
    exp = z3.Option(z3.Concat(z3.Union(z3.Re('e'), z3.Re('E')), sign, digits))
    point = z3.Union(z3.Concat(digits, z3.Option(z3.Concat(z3.Re('.'), z3.Option(digits)))), z3.Concat(z3.Re('.'), digits))
    special = z3.Union(ci_regex('inf'), ci_regex('infinity'), ci_regex('nan'))
    FLOAT_TEXT = z3.Concat(ws, sign, z3.Union(z3.Concat(point, exp), special), ws)


_TEXTNUM = {}


def text_to_number(s, kind):
    """value of int(text)/float(text) as an uninterpreted function of the text (same text, same number)"""
    key = (kind, s.e.get_id())
    hit = _TEXTNUM.get(key)
    if hit is not None and hit[0].eq(s.e):
        return hit[1]
    f = z3.Function('text_to_%s' % kind, z3.StringSort(), z3.RealSort())
    v = f(s.e)
    if len(_TEXTNUM) > 5000:
        _TEXTNUM.clear()
    _TEXTNUM[key] = (s.e, v)
    return v


def symint_text(x=0, *a):
    """stand-in for builtin int() in analysed modules: symbolic numbers and symbolic strings are handled
    symbolically (contract S-float/int), everything else goes to the builtin"""
    if isinstance(x, SymNum):
        return symint(x)
    if isinstance(x, SymStr):
        _number_grammars()
        if CTX.decide(z3.InRe(x.e, INT_TEXT)):
            v = text_to_number(x, 'int')
            CTX.assume(z3.IsInt(v))
            plain = z3.InRe(x.e, z3.Plus(z3.Range('0', '9')))
            CTX.assume(z3.Implies(plain, v == z3.ToReal(z3.StrToInt(x.e))))
            return SymNum(v, 'i')
        raise ValueError("invalid literal for int() with base 10: <symbolic>")
    return int(x, *a)


def symfloat_text(x=0.0):
    if isinstance(x, SymNum):
        return symfloat(x)
    if isinstance(x, SymStr):
        _number_grammars()
        if CTX.decide(z3.InRe(x.e, FLOAT_TEXT)):
            return SymNum(text_to_number(x, 'float'), 'f')
        raise ValueError("could not convert string to float: <symbolic>")
    return float(x)


class _ShadowMeta(type):
    """metaclass of the int/float stand-ins: isinstance() behaves like the builtin type, calling converts"""

    def __instancecheck__(cls, x):
        return isinstance(x, cls.__mro__[1])

    def __subclasscheck__(cls, sub):
        return issubclass(sub, cls.__mro__[1])

    def __call__(cls, *a, **k):
        return cls._convert(*a, **k)

    # the stand-in IS the builtin type as far as comparisons go (`data_type in (int, numpy.uint)` in the analysed code
    # compares a value captured at import time - the builtin - with the module's shadowed name)
    def __eq__(cls, o):
        return o is cls or o is cls.__mro__[1]

    def __ne__(cls, o):
        return not (o is cls or o is cls.__mro__[1])

    def __hash__(cls):
        return hash(cls.__mro__[1])


class IntShadow(int, metaclass=_ShadowMeta):
    _convert = staticmethod(symint_text)


class FloatShadow(float, metaclass=_ShadowMeta):
    _convert = staticmethod(symfloat_text)
