"""debug helper: run one job config of a property in-process:  python -m mpv.dbg C04 '{"cmd": ...}'"""
import sys, json, importlib
from . import main as M


def run():
    prop, cfg = sys.argv[1], json.loads(sys.argv[2])
    scratch = M.make_scratch()
    mod = importlib.import_module('mpv.props.' + prop)
    mod.boot(scratch)
    r = mod.run_job(cfg, 0)
    for k in ('cex', 'unreproduced', 'mismatches', 'unknown'):
        for x in r.get(k, []):
            print(k.upper(), json.dumps(x, default=str)[:1500])
    print({k: v for k, v in r.items() if k not in ('cex', 'unreproduced', 'mismatches', 'samples', 'unknown')})


if __name__ == '__main__':
    run()
