"""Aggregation of job results into verdict lines, replay files and the evidence file."""
import os
import sys
import json
import hashlib
import collections

HERE = os.path.dirname(os.path.dirname(os.path.abspath(__file__)))


def signature(prop, rec):
    if rec.get('signature'):
        return rec['signature']
    cmds = '+'.join(collections.OrderedDict.fromkeys(rec.get('commands') or []))
    sig = '%s %s %s' % (prop, cmds, rec.get('group') or rec.get('label'))
    extra = (rec.get('cfg') or {}).get('sig')
    if extra:
        sig += ' ' + str(extra)
    return sig


def finish(prop, tier, seed, jobs, results, describe, known, wall, scratch, write=True):
    tot = collections.Counter()
    outcomes = collections.Counter()
    unknown, mismatches, unrepro, cex, samples, notes, errors = [], [], [], [], [], [], []
    exhausted = True
    per_job = []
    for j, r in zip(jobs, results):
        if r is None or not r.get('ok'):
            errors.append({'cfg': j, 'error': (r or {}).get('error', 'no result'), 'trace': (r or {}).get('trace', '')[-1500:]})
            continue
        x = r['result']
        for k in ('paths', 'decisions', 'queries', 'obligations', 'discharged', 'maybe', 'aborted', 'validated',
                  'payload_diffs', 'outside', 'nomodel', 'lemmas'):
            tot[k] += int(x.get(k, 0) or 0)
        tot['solver_s'] += float(x.get('solver_s', 0) or 0)
        for k, v in (x.get('outcomes') or {}).items():
            outcomes[k] += v
        if not x.get('exhausted', True):
            exhausted = False
            notes.append('path cap / deadline hit in %s' % json.dumps(j, default=str)[:200])
        unknown += [dict(u, cfg=j) for u in x.get('unknown', [])]
        mismatches += [dict(u, cfg=j) for u in x.get('mismatches', [])]
        unrepro += x.get('unreproduced', [])
        cex += [c for c in x.get('cex', [])]
        for s in x.get('samples', []):
            if len(samples) < 12:
                samples.append({'cfg': j, 'case': s})
        notes += x.get('notes', [])
        per_job.append({'cfg': j, 'paths': x.get('paths', 0), 'obligations': x.get('obligations', 0),
                        'discharged': x.get('discharged', 0), 'wall_s': round(r.get('wall_s', 0), 2)})

    # ---- violations: group reproduced counterexamples by signature
    os.makedirs(os.path.join(HERE, 'replays'), exist_ok=True)
    if write:
        import glob
        for old in glob.glob(os.path.join(HERE, 'replays', '%s-*.json' % prop)):
            os.remove(old)
    known_sigs = {f['signature']: f for f in known.get('findings', []) if f.get('property') == prop}
    by_sig = collections.OrderedDict()
    for c in cex:
        if c.get('dup') or not c.get('reproduced'):
            continue
        by_sig.setdefault(signature(prop, c), []).append(c)
    dup_count = sum(1 for c in cex if c.get('dup'))
    new_violations, known_hits = [], []
    for sig, recs in by_sig.items():
        rec = dict(recs[0])
        rec['signature'] = sig
        rec['property'] = prop
        h = hashlib.sha1(sig.encode()).hexdigest()[:10]
        path = os.path.join(HERE, 'replays', '%s-%s.json' % (prop, h))
        with open(path, 'w') as f:
            json.dump(rec, f, indent=1, default=str)
        if sig in known_sigs:
            known_hits.append((sig, path, len(recs)))
        else:
            new_violations.append((sig, path, len(recs)))
    for sig, path, n in known_hits:
        print('KNOWN-FINDING: property=%s %s (replay=%s)' % (prop, sig, path))
    for sig, path, n in new_violations:
        print('VIOLATION property=%s replay=%s' % (prop, path))
        print('  signature: %s  (%d counterexample path(s))' % (sig, n))

    inconclusive = []
    if errors:
        inconclusive.append('%d job(s) failed: %s' % (len(errors), '; '.join(
            '%s [%s]' % (e['error'], json.dumps(e['cfg'], default=str, sort_keys=True)[:260]) for e in errors[:4])))
    if unknown:
        inconclusive.append('%d obligation(s) with solver verdict unknown, e.g. %s' % (len(unknown), unknown[0].get('label')))
    if not exhausted:
        inconclusive.append('exploration not exhausted within the path cap')
    if mismatches:
        inconclusive.append('%d path(s) where the symbolic model disagrees with the real code, e.g. %s' % (len(mismatches), mismatches[0].get('why')))
    if unrepro:
        inconclusive.append('%d counterexample(s) did not reproduce on the real code, e.g. %s: %s' % (len(unrepro), unrepro[0].get('label'), unrepro[0].get('why')))
    if tot['paths'] == 0 and tot['lemmas'] == 0:
        inconclusive.append('nothing explored')

    if new_violations:
        code = 1
    elif inconclusive:
        code = 2
    else:
        code = 0
    for why in inconclusive:
        print('INCONCLUSIVE property=%s %s' % (prop, why))
    print('%s tier=%s jobs=%d paths=%d decisions=%d obligations=%d discharged=%d validated=%d violations=%d known=%d solver=%.1fs wall=%.1fs exit=%d'
          % (prop, tier, len(jobs), tot['paths'], tot['decisions'], tot['obligations'], tot['discharged'], tot['validated'],
             len(new_violations), len(known_hits), tot['solver_s'], wall, code))
    if errors and os.environ.get('MPV_VERBOSE'):
        for e in errors[:3]:
            sys.stderr.write(json.dumps(e, indent=1, default=str)[:3000] + '\n')

    if write:
        cov = {
            'states': int(tot['paths'] + tot['lemmas']),
            'transitions': int(max(tot['decisions'], tot['paths'] + tot['lemmas'])),
            'traces_validated_against_impl': int(tot['validated']),
            'samples': samples or [{'note': 'no sample recorded'}],
            'obligations': int(tot['obligations']),
            'discharged': int(tot['discharged']),
            'exhaustive': bool(exhausted and not errors),
            'solver_queries': int(tot['queries']),
            'solver_s': round(tot['solver_s'], 2),
            'paths_outside_real_model': int(tot['outside']),
            'feasibility_unknown_overapproximated': int(tot['maybe']),
            'payload_only_differences': int(tot['payload_diffs']),
            'path_outcomes': dict(outcomes.most_common(40)),
            'configurations': len(jobs),
            'functions_encoded': describe.get('functions', []),
            'bounds': describe.get('bounds', {}).get(tier, describe.get('bounds', {})),
            'outside_claim': describe.get('outside', []),
            'violations_new': [s for s, _, _ in new_violations],
            'known_findings_hit': [s for s, _, _ in known_hits],
            'inconclusive': inconclusive,
            'duplicate_counterexamples_suppressed': dup_count,
            'per_configuration': per_job[:400],
            'notes': notes[:40],
        }
        ev = {
            'property_id': prop, 'tier': tier, 'seed': seed, 'level': describe.get('level', 'model_checking'),
            'coverage': cov, 'assumptions': describe.get('assumptions', []), 'wall_s': round(wall, 2),
            'violations': len(new_violations),
        }
        os.makedirs(os.path.join(HERE, 'evidence'), exist_ok=True)
        with open(os.path.join(HERE, 'evidence', '%s.json' % prop), 'w') as f:
            json.dump(ev, f, indent=1, default=str)
    return code
