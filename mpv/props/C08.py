"""C08 -- fuzzy conversions and normalisations compute their documented mappings."""
import json

import z3

from .. import datacmd as D
from .. import symx
from .. import oracle

PROP = 'C08'

VARIANT_OF = {'CvtToFuzzyZScore': 'NormalizeZScore', 'CvtToFuzzyCat': 'NormalizeCat', 'CvtToFuzzyCurve': 'NormalizeCurve',
              'CvtToFuzzyMeanToMid': 'NormalizeMeanToMid', 'CvtToFuzzyCurveZScore': 'NormalizeCurveZScore'}
MONOTONE = ['CvtToFuzzy', 'CvtFromFuzzy', 'Normalize', 'NormalizeZScore', 'CvtToFuzzyZScore', 'CvtToBinary']


def boot(scratch):
    D.boot(scratch)


def conv_commands():
    specs = D.command_specs_cached()
    return [s for n, s in specs.items() if n.startswith('Cvt') or n.startswith('Normalize')]


def heavy(name):
    return 'CurveZScore' in name


def plan(tier, seed):
    jobs = []
    for sp in conv_commands():
        for var in D.default_variants(sp, tier):
            has_list = any(p.kind == 'numlist' for p in sp.params)
            mtm = any(p.name == 'IgnoreZeros' for p in sp.params)
            if tier == 'quick':
                shapes = [[3]] if (sp.name in D.STAT_CMDS or sp.name == 'CvtToFuzzy') and not heavy(sp.name) else [[2]]
                ptss = [2] if heavy(sp.name) else ([3] if has_list and not mtm else [2])
            else:
                shapes = [[2]] if heavy(sp.name) else [[3], [2]]
                ptss = ([2, 3] if heavy(sp.name) else [2, 3, 4]) if has_list and not mtm else [2]
                # (4 control points only on 2 cells: with 3 cells single jobs ran 10-25 min and left solver verdicts unknown)
            for shape in shapes:
                for pts in ptss:
                    if pts >= 4 and shape[0] > 2:
                        continue
                    reps = ['m'] if tier == 'quick' or heavy(sp.name) else ['m', 'n']
                    for rp in reps:
                        kinds = ['f'] if tier == 'quick' else ['f', 'i']
                        if heavy(sp.name) or mtm:
                            kinds = ['f']
                        elif not var.get('omit') and pts <= 3:
                            kinds = kinds + ['u']       # unsigned integers ("Positive Integer" layers); not with data-derived thresholds or 4 control points (those integer + nonlinear queries came back unknown)
                        for kd in kinds:
                            jobs.append(dict(var, kind='def', cmd=sp.name, shape=shape, pts=pts, reps=rp, kinds=kd, k=1))
            if mtm and (tier != 'quick' or not var.get('bool', {}).get('IgnoreZeros')):
                # 4 cells: the smallest column in which a cell can tie with the mean while another cell lies strictly
                # between two control points (with 3 cells every cell coincides with a control point)
                jobs.append(dict(var, kind='def', cmd=sp.name, shape=[4], pts=2, reps='n' if tier == 'quick' else 'm', kinds='f', k=1))
        # ---- the documented mapping must also come out of the DOUBLES: a magnitude-relative rounding pattern on every
        # array operation exposes formulas whose errors do not cancel (data with a large offset and a small range)
        if not heavy(sp.name) and not mtm:
            vs_ = [v for v in D.default_variants(sp, 'quick') if not v.get('omit')][:1 if tier == 'quick' else 3]
            for var in vs_:
                jobs.append(dict(var, kind='def', cmd=sp.name, shape=[3] if (sp.name in D.STAT_CMDS or sp.name == 'CvtToFuzzy') else [2], pts=2, reps='n', kinds='f', k=1,
                                 rounding='rel', resample=0, max_paths=2000))
        if sp.name in MONOTONE:
            for var in D.default_variants(sp, 'quick'):
                jobs.append(dict(var, kind='monotone', cmd=sp.name, shape=[2] if (tier == 'quick' or 'ZScore' in sp.name) else [3], pts=2, reps='m', kinds='f', k=1))
        if sp.name in VARIANT_OF:
            for var in D.default_variants(sp, 'quick'):
                if var.get('omit'):
                    continue
                jobs.append(dict(var, kind='variant', cmd=sp.name, shape=[2], pts=2 if heavy(sp.name) or tier == 'quick' else 3, reps='m', kinds='f', k=1))
    for direction in ('LowToHigh', 'HighToLow', None):
        jobs.append(dict(kind='variant-plain', direction=direction, shape=[2] if tier == 'quick' else [3], reps='m', kinds='f', k=1))
    for shape in ([[2]] if tier == 'quick' else [[2], [3]]):
        jobs.append(dict(kind='inverse', shape=shape, reps='m', kinds='f', k=1))
    return jobs


def scenario(ctx, cfg):
    specs = D.command_specs_cached()
    kind = cfg['kind']
    if kind == 'def':
        sp = specs[cfg['cmd']]
        kw = D.build_kwargs(ctx, sp, cfg, fuzzy_pre=True)
        D.assume_preconditions(ctx, sp, kw, cfg)
        if cfg.get('rounding'):
            # magnitudes for which float64 still resolves the data: |cell| <= 2^44, output-side parameters <= 64
            for h in D.arrays_of(kw):
                cs_ = D.arr_cells(h.arr)[0]
                for c in cs_:
                    ctx.assume(z3.And(c >= -2 ** 44, c <= 2 ** 44))
                if len(cs_) > 1:
                    ctx.assume(z3.Distinct(*cs_))       # a search job: distinct cells, so that one of three lies strictly inside the range
            for pn, pv in kw.items():
                vals = pv if isinstance(pv, list) else [pv]
                for v in vals:
                    if isinstance(v, symx.SymNum):
                        b = 64 if pn in ('StartVal', 'EndVal', 'NormalValues', 'FuzzyValues', 'DefaultNormalValue', 'DefaultFuzzyValue') else 2 ** 44
                        ctx.assume(z3.And(v.e >= -b, v.e <= b))
        snap = D.snapshot_inputs(kw)
        r = D.run_cmd(ctx, sp.name, kw)
        obs, ref = D.oracle_obligations(sp, kw, snap, r, want=('value',) if cfg.get('rounding') else ('mask', 'value', 'kind', 'shape'), in_shape=cfg['shape'])
        if cfg.get('rounding'):
            return [o for o in obs if o['group'] == 'value']
        if ref is not None:
            obs.append(D.fact_ob('declared outcome', ('declared_outcome', 0), group='outcome'))
        return obs
    if kind == 'monotone':
        sp = specs[cfg['cmd']]
        kw = D.build_kwargs(ctx, sp, cfg, fuzzy_pre=True)
        D.assume_preconditions(ctx, sp, kw, cfg)
        snap = D.snapshot_inputs(kw)
        r = D.run_cmd(ctx, sp.name, kw)
        if r.outcome != 'ok' or len(r.pd) != len(snap[0][0]):
            return []
        x, m = snap[0][0], snap[0][1] or [z3.BoolVal(False)] * len(snap[0][0])
        n = len(x)
        up, down = [], []
        for i in range(n):
            for j in range(n):
                if i == j:
                    continue
                live = z3.And(z3.Not(r.pm[i]), z3.Not(r.pm[j]), z3.Not(m[i]), z3.Not(m[j]))
                up.append(z3.Implies(z3.And(live, x[i] <= x[j]), r.pd[i] <= r.pd[j]))
                down.append(z3.Implies(z3.And(live, x[i] <= x[j]), r.pd[i] >= r.pd[j]))
        return [D.term_ob('the mapping preserves (or reverses) the order of all cells', z3.Or(z3.And(*up), z3.And(*down)), group='monotone')]
    if kind == 'variant':
        sp = specs[cfg['cmd']]
        base = specs[VARIANT_OF[sp.name]]
        kw = D.build_kwargs(ctx, sp, cfg, fuzzy_pre=True)
        D.assume_preconditions(ctx, sp, kw, cfg)
        kwb = {}
        for k_, v in kw.items():
            k2 = {'FuzzyValues': 'NormalValues', 'DefaultFuzzyValue': 'DefaultNormalValue'}.get(k_, k_)
            kwb[k2] = v
        if base.name == 'NormalizeZScore':
            kwb['StartVal'] = -1
            kwb['EndVal'] = 1
        r0 = D.run_cmd(ctx, sp.name, kw)
        r1 = D.run_cmd(ctx, base.name, kwb)
        obs = [D.fact_ob('fuzzy variant and Normalize counterpart succeed or fail alike', ('same_outcome', 0, 1), group='variant-outcome')]
        if r0.outcome == 'ok' and r1.outcome == 'ok' and len(r0.pd) == len(r1.pd):
            for i in range(len(r0.pd)):
                obs.append(D.term_ob('cell %d: missing alike' % i, r0.pm[i] == r1.pm[i], group='variant-mask'))
                obs.append(D.term_ob('cell %d: fuzzy variant == clamp(Normalize counterpart)' % i,
                                     z3.Or(r0.pm[i], r0.pd[i] == oracle.clamp(r1.pd[i])), group='variant-value'))
        return obs
    if kind == 'variant-plain':
        h = D.sym_array(ctx, 'x', tuple(cfg['shape']), 'f', 'ma', False)
        kw = {'InFieldName': h}
        if cfg['direction']:
            kw['Direction'] = cfg['direction']
        D.assume_preconditions(ctx, specs['CvtToFuzzy'], kw, cfg)
        r0 = D.run_cmd(ctx, 'CvtToFuzzy', kw)
        s, e = (1, -1) if cfg['direction'] == 'HighToLow' else (-1, 1)
        r1 = D.run_cmd(ctx, 'Normalize', {'InFieldName': h, 'StartVal': s, 'EndVal': e})
        obs = [D.fact_ob('CvtToFuzzy with default thresholds and Normalize to [-1,1] succeed or fail alike', ('same_outcome', 0, 1), group='variant-outcome')]
        if r0.outcome == 'ok' and r1.outcome == 'ok' and len(r0.pd) == len(r1.pd):
            for i in range(len(r0.pd)):
                obs.append(D.term_ob('cell %d: missing alike' % i, r0.pm[i] == r1.pm[i], group='variant-mask'))
                obs.append(D.term_ob('cell %d: CvtToFuzzy(defaults) == clamp(Normalize(-1..1))' % i,
                                     z3.Or(r0.pm[i], r0.pd[i] == oracle.clamp(r1.pd[i])), group='variant-value'))
        return obs
    if kind == 'inverse':
        h = D.sym_array(ctx, 'x', tuple(cfg['shape']), 'f', 'ma', False)
        tt, ft = D.sym_num(ctx, 'tt'), D.sym_num(ctx, 'ft')
        d, m, _ = D.arr_cells(h.arr)
        lo = z3.If(tt.e < ft.e, tt.e, ft.e)
        hi = z3.If(tt.e < ft.e, ft.e, tt.e)
        for x, mk in zip(d, m):
            ctx.assume(z3.Or(mk, z3.And(lo <= x, x <= hi)))
        ctx.assume(tt.e != ft.e)
        r0 = D.run_cmd(ctx, 'CvtToFuzzy', {'InFieldName': h, 'TrueThreshold': tt, 'FalseThreshold': ft})
        if r0.outcome != 'ok':
            return [D.fact_ob('CvtToFuzzy returns a result', ('ok', 0), group='outcome')]
        r1 = D.run_cmd(ctx, 'CvtFromFuzzy', {'InFieldName': D.Holder('fz', r0.result, True), 'TrueThreshold': tt, 'FalseThreshold': ft})
        obs = [D.fact_ob('CvtFromFuzzy returns a result', ('ok', 1), group='outcome')]
        if r1.outcome == 'ok' and len(r1.pd) == len(d):
            for i in range(len(d)):
                obs.append(D.term_ob('cell %d: missing alike' % i, r1.pm[i] == m[i], group='inverse-mask'))
                obs.append(D.term_ob('cell %d: CvtFromFuzzy(CvtToFuzzy(x)) == x' % i, z3.Or(m[i], r1.pd[i] == d[i]), group='inverse-value'))
        return obs
    raise ValueError(kind)


def run_job(cfg, seed):
    return D.run_scenario_job(scenario, cfg, PROP, seed, max_paths=cfg.get('max_paths', 20000))


def replay(rec):
    return D.replay_record(rec)


def describe(tier):
    return {
        'level': 'model_checking',
        'functions': ['execute() of ' + ', '.join(s.name for s in conv_commands()) + ' (mpilot/libraries/eems/fuzzy.py, basic.py)', 'mpilot/utils.py: insure_fuzzy'],
        'bounds': {
            'quick': '2 cells, 3 control points / categories in symbolic (any) order (CurveZScore: 2), every Direction and IgnoreZeros value, thresholds given or defaulted; monotonicity on 2 cells; inverse and variant-vs-Normalize relations on 2 cells',
            'thorough': '2-3 cells with 2-3 control points, 2 cells with 4 (CurveZScore: 2 cells, 2-3 points), MeanToMid on 4 cells, masked and nomask inputs, int64, uint64 and float64 data; monotonicity on 3 cells (z-score commands: 2)',
        },
        'outside': ['IEEE-754 rounding except through the rounding=rel search jobs (a fixed alternating pattern of relative errors 2^-50 per array operation: finds non-cancelling errors, proves nothing about doubles)', 'unsigned data above 2^20, with data-derived thresholds or 4 control points', 'float32 / 8-16-32-bit integer element types', 'default z-score thresholds of NormalizeZScore (documentation and code disagree; explicit thresholds only)',
                    'NormalizeZScore with StartVal >= EndVal', 'arrays with fewer than two distinct non-missing values'],
        'assumptions': D.STUBS + ['A-pre: >=2 distinct non-missing values for statistic-driven commands; distinct z-scores; true != false z-score threshold',
                                  'sqrt (std) is a fresh value r with r>=0 and r*r==variance, on both the implementation and the reference side'],
    }
