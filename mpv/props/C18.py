"""C18 -- NetCDF reading and writing are faithful (partial).

(1) read options, solver-decided: the real netcdf/io.py EEMSRead runs through the real Command.run on the symbolic
    numpy with the `netCDF4` module replaced by a stub whose variables hand back arbitrary symbolic masked arrays.
(2) write / read-back, concrete: grids whose rank, shape, element type and missing-cell placement are solver choices
    are written by the real EEMSWrite with the real netCDF4/HDF5 library and read back by the real EEMSRead (replay
    worker, real numpy).  The library itself is C code: this part is exercised, not proved."""
import os
import sys
import types
import collections

import z3

from .. import datacmd as D
from .. import symx
from ..symx import SymNum

PROP = 'C18'
STUB = {}


class _Var(object):
    def __init__(self, arr):
        self.arr = arr

    def __getitem__(self, key):
        return self.arr


class _Dataset(object):
    def __init__(self, path, mode='r', **kw):
        STUB.setdefault('opened', []).append((path, mode))
        self.variables = STUB['variables']

    def __enter__(self):
        return self

    def __exit__(self, *a):
        return False

    def __getitem__(self, name):
        return self.variables[name]


def boot(scratch):
    fake = types.ModuleType('netCDF4')
    fake.Dataset = _Dataset
    sys.modules['netCDF4'] = fake
    D.boot(scratch)
    from numbers import Number
    Number.register(SymNum)
    import mpilot.params as prm
    import mpilot.libraries.eems.netcdf.io as nio
    nio.float = symx.FloatShadow
    nio.int = symx.IntShadow
    prm.os = types.SimpleNamespace(path=types.SimpleNamespace(isabs=lambda p: True, exists=lambda p: True, join=os.path.join))
    D.MODS['nio'] = nio


OPTIONS = [None, 'Float', 'Integer', 'Positive Float', 'Positive Integer', 'Fuzzy']


def plan(tier, seed):
    jobs = []
    for opt in OPTIONS:
        for kind in ('f', 'i'):
            for missing in (False, True):
                for rep in ('m', 'n'):
                    jobs.append(dict(kind='read', option=opt, dkind=kind, missing=missing, rep=rep, n=2 if tier == 'quick' else 3))
    jobs.append(dict(kind='read-novar'))
    jobs += [dict(kind='roundtrip', rank=r) for r in (1, 2, 3)]
    return jobs


def rint_term(e):
    f = z3.ToReal(z3.ToInt(e))
    d = e - f
    even = z3.ToInt(f) % 2 == 0
    return z3.If(d < z3.RealVal(1) / 2, f, z3.If(d > z3.RealVal(1) / 2, f + 1, z3.If(even, f, f + 1)))


def read_harness(ctx, cfg):
    nio = D.MODS['nio']
    Argument = sys.modules['mpilot.arguments'].Argument
    E = sys.modules['mpilot.exceptions']
    n = cfg['n']
    h = D.sym_array(ctx, 'var', (n,), cfg['dkind'], D.REPS[cfg['rep']], False)
    d, m, _ = D.arr_cells(h.arr)
    m = m if m is not None else [z3.BoolVal(False)] * n
    STUB.clear()
    STUB['variables'] = {'v': _Var(h.arr)}
    args = [Argument('InFileName', '/data/in.nc', 3), Argument('InFieldName', 'v', 4)]
    opt = cfg['option']
    if opt is not None:
        args.append(Argument('DataType', opt, 5))
    mv = None
    if cfg['missing']:
        mv = SymNum(ctx.real('MissingValue', integer=(cfg['dkind'] == 'i' and opt in ('Integer', 'Positive Integer'))), 'f')
        args.append(Argument('MissingValue', mv, 6))
    c = nio.EEMSRead('r', args, program=None, lineno=2)
    try:
        c.run()
        res, oc = c._result, 'ok'
    except E.MPilotError as e:
        res, oc = None, type(e).__name__
        inner = getattr(e, 'exc', None)
        if isinstance(inner, symx.Inconclusive):
            raise inner
        if oc == 'UnexpectedError':
            oc = 'UnexpectedError(%s)' % type(inner).__name__
    except (symx.Abort, symx.Outside, symx.Inconclusive):
        raise
    except Exception as e:      # noqa: B902
        res, oc = None, 'exc:' + type(e).__name__
    obs, groups = [], {}

    def ob(label, term, group):
        obs.append((label, term if z3.is_expr(term) else z3.BoolVal(bool(term))))
        groups[label] = group + ' option=%s' % opt
    integer = opt in ('Integer', 'Positive Integer')
    live = [z3.Not(x) for x in m]
    neg = z3.Or(*[z3.And(lv, x < 0) for lv, x in zip(live, d)])
    pad = 0.01 * (1 - -1)        # the documented 1 % padding; the bounds are the doubles 1 + pad and -1 - pad
    outside = z3.Or(*[z3.And(lv, z3.Or(x > symx.frac(1 + pad), x < symx.frac(-1 - pad))) for lv, x in zip(live, d)])
    anylive = z3.Or(*live)
    if opt in ('Positive Float', 'Positive Integer'):
        ob('negative data are rejected as InvalidPositiveData and only then (%s)' % oc, z3.BoolVal(oc == 'InvalidPositiveData') == neg, 'positive-check')
        expect_ok = z3.Not(neg)
    elif opt == 'Fuzzy':
        ob('data outside the padded fuzzy range are rejected as InvalidFuzzyData and only then (%s)' % oc, z3.BoolVal(oc == 'InvalidFuzzyData') == outside, 'fuzzy-check')
        expect_ok = z3.Not(outside)
    else:
        expect_ok = z3.BoolVal(True)
    ob('reading succeeds whenever the type check passes (%s)' % oc, z3.Implies(z3.And(expect_ok, anylive), z3.BoolVal(oc in ('ok',))), 'read-outcome')
    if oc == 'ok':
        ok = isinstance(res, D.symnp.MaskedArray) and res.size == n
        ob('the variable comes back as a masked array of its shape', ok, 'read-shape')
        if ok:
            ob('element type: %s' % ('integer' if integer else 'float (the default)'), (res.kind in ('i', 'u')) if integer else res.kind == 'f', 'read-dtype')
            cells, masks = res.data.cells(), res.maskcells()
            for i in range(n):
                want = d[i]
                if integer and cfg['dkind'] == 'f':
                    want = rint_term(d[i])
                if opt == 'Fuzzy':
                    want = z3.If(want > 1, z3.RealVal(1), z3.If(want < -1, z3.RealVal(-1), want))
                wm = m[i]
                if mv is not None:
                    wm = z3.Or(m[i], want == (symx.trunc_term(mv.e) if integer else mv.e))
                ob('cell %d: missing iff missing in the file or equal to MissingValue' % i, masks[i] == wm, 'read-mask')
                ob('cell %d: value as stored (rounded to the nearest integer for integer types, clamped for Fuzzy)' % i, z3.Or(masks[i], cells[i] == want), 'read-value')
    rec = {'kind': 'read', 'option': opt, 'dkind': cfg['dkind'], 'missing': cfg['missing'], 'rep': cfg['rep']}

    def conc(mdl, label):
        r = dict(rec)
        r['data'] = [float(symx.model_value(mdl, x)) for x in d]
        r['mask'] = [bool(symx.model_value(mdl, x)) for x in m]
        r['mv'] = float(symx.model_value(mdl, mv.e)) if mv is not None else None
        # what the symbolic run produced under this model: a counterexample is only reported when the real code
        # produces exactly this (then its disagreement with the reference carries over to the real code)
        r['sym_outcome'] = oc
        if oc == 'ok' and isinstance(res, D.symnp.ndarray):
            r['sym'] = {'data': [float(symx.model_value(mdl, t)) for t in (res.data.cells() if isinstance(res, D.symnp.MaskedArray) else res.cells())],
                        'mask': [bool(symx.model_value(mdl, t)) for t in res.maskcells()] if isinstance(res, D.symnp.MaskedArray) else None,
                        'kind': {'u': 'i'}.get(res.kind, res.kind)}
        return r
    return {'outcome': oc, 'obligations': obs, 'groups': groups, 'concretise': conc, 'replay': rec, 'path_check': lambda mdl: check_real(conc(mdl, None), res, oc, mdl)}


def real_read(rec):
    """write a real NetCDF file with the concrete variable and read it with the real EEMSRead (worker: real numpy + netCDF4)"""
    path = os.path.join(D.SCRATCH, 'c18-%d.nc' % os.getpid())
    spec = {'path': path, 'data': rec['data'], 'mask': rec['mask'] if rec['rep'] == 'm' else None, 'kind': rec['dkind']}
    src = 'R = EEMSRead(InFileName = "%s", InFieldName = v%s%s)\n' % (
        path, (', DataType = "%s"' % rec['option']) if rec['option'] else '', (', MissingValue = %r' % rec['mv']) if rec['mv'] is not None else '')
    rep = D.WORKER.ask({'program': src, 'inputs': {}, 'libraries': ['mpilot.libraries.eems.basic', 'mpilot.libraries.eems.netcdf', 'mpilot.libraries.eems.fuzzy'], 'netcdf': spec})
    return rep


def check_real(rec, res, oc, m):
    rep = real_read(rec)
    if not rep.get('ok'):
        real_oc = rep.get('exc')
        if real_oc == 'UnexpectedError':
            real_oc = 'UnexpectedError(%s)' % rep.get('inner')
        return real_oc == oc, 'symbolic outcome %s vs real %s %s' % (oc, real_oc, rep.get('msg', '')[:80])
    if oc != 'ok':
        return False, 'symbolic outcome %s vs real ok' % oc
    rr = rep['results']['R']
    sm = [bool(symx.model_value(m, t)) for t in res.maskcells()]
    sv = [float(symx.model_value(m, t)) for t in res.data.cells()]
    ok = (rr['mask'] or [False] * len(sv)) == sm and all(mk or D.close(a, b) for a, b, mk in zip(sv, rr['data'], sm)) and {'f': 'f', 'i': 'i', 'u': 'i'}.get(rr['kind']) == {'u': 'i'}.get(res.kind, res.kind)
    return ok, 'symbolic %s/%s/%s vs real %s/%s/%s' % (sv, sm, res.kind, rr['data'], rr['mask'], rr['kind'])


def novar_harness(ctx, cfg):
    nio = D.MODS['nio']
    Argument = sys.modules['mpilot.arguments'].Argument
    E = sys.modules['mpilot.exceptions']
    STUB.clear()
    STUB['variables'] = {}
    c = nio.EEMSRead('r', [Argument('InFileName', '/data/in.nc', 3), Argument('InFieldName', 'nope', 4)], program=None, lineno=2)
    try:
        c.run()
        oc = 'ok'
    except E.MPilotError as e:
        oc = type(e).__name__
    lab = 'a variable that is not in the dataset is reported as NoSuchVariable (%s)' % oc
    return {'outcome': oc, 'obligations': [(lab, z3.BoolVal(oc == 'NoSuchVariable'))], 'groups': {lab: 'no-such-variable'}, 'replay': {'kind': 'novar'}, 'validated': True}


def roundtrip_harness(ctx, cfg):
    rank = cfg['rank']
    shape = [[3], [2, 3], [2, 1, 2]][rank - 1]
    if ctx.choice('unit_axis', 2) and rank > 1:
        shape[0] = 1
    kinds = ['f', 'i'][ctx.choice('kind', 2)]
    nres = 1 + ctx.choice('results', 3)
    # 0 none (no mask arrays), 1 first cell of result 0, 2 last cell of the last result, 3 both, 4 a middle result only, 5 first result without a mask array + last masked
    maskpat = ctx.choice('maskpat', 6)
    coords = ['plain', 'packed'][ctx.choice('coords', 2)]      # template coordinate variables: doubles, or packed int16 (scale_factor / add_offset)
    rec = {'kind': 'roundtrip', 'shape': shape, 'dkind': kinds, 'nres': nres, 'maskpat': maskpat, 'coords': coords}
    rep = D.WORKER.ask({'netcdf_roundtrip': rec, 'scratch': D.SCRATCH})
    obs, groups = [], {}
    for lab, ok in rep.get('facts', [('the round trip ran (%s)' % rep.get('error'), False)]):
        obs.append((lab, z3.BoolVal(bool(ok))))
        groups[lab] = 'roundtrip ' + lab.split(':')[0]
    return {'outcome': 'roundtrip', 'obligations': obs, 'groups': groups, 'replay': rec, 'validated': True}


def harness(ctx, cfg):
    return {'read': read_harness, 'read-novar': novar_harness, 'roundtrip': roundtrip_harness}[cfg['kind']](ctx, cfg)


def confirm(rec, label):
    if rec.get('kind') == 'read' and 'data' in rec:
        rep = real_read(rec)
        D.WORKER.close()
        desc = 'real netCDF4 file + real EEMSRead: %s' % (('ok ' + str(rep['results']['R'])[:200]) if rep.get('ok') else '%s(%s) %s' % (rep.get('exc'), rep.get('inner'), rep.get('msg', '')[:120]))
        if 'sym_outcome' not in rec:
            return True, desc
        if not rep.get('ok'):
            real_oc = rep.get('exc')
            if real_oc == 'UnexpectedError':
                real_oc = 'UnexpectedError(%s)' % rep.get('inner')
            return real_oc == rec['sym_outcome'], desc + ' (symbolic run: %s)' % rec['sym_outcome']
        if rec['sym_outcome'] != 'ok' or 'sym' not in rec:
            return False, desc + ' (symbolic run: %s)' % rec['sym_outcome']
        rr, sy = rep['results']['R'], rec['sym']
        rmask = rr['mask'] or [False] * len(rr['data'])
        smask = sy['mask'] or [False] * len(sy['data'])
        same = rmask == smask and {'u': 'i'}.get(rr['kind'], rr['kind']) == sy['kind'] and all(mk or D.close(a, b) for a, b, mk in zip(sy['data'], rr['data'], smask))
        return same, desc + ('' if same else ' - differs from the symbolic run %s' % sy)
    return True, 'executed on the real code'


def run_job(cfg, seed):
    from .. import progx as P
    try:
        return P.run_struct_job(harness, cfg, PROP, seed, confirm=confirm, max_paths=cfg.get('max_paths', 20000))
    finally:
        D.WORKER.close()


def replay(rec):
    ok, why = confirm(rec['record'], rec.get('label'))
    return {'reproduced': ok, 'why': why}


def describe(tier):
    return {
        'level': 'model_checking',
        'functions': ['mpilot/libraries/eems/netcdf/io.py: EEMSRead.execute (through Command.run / validate_params)', 'mpilot/libraries/eems/netcdf/exceptions.py', 'EEMSWrite.execute (concrete round trips only)'],
        'bounds': {'quick': 'read: variables of 2 symbolic cells (float64 or int64, with a symbolic mask or none) x DataType in {omitted, Float, Integer, Positive Float, Positive Integer, Fuzzy} x MissingValue symbolic or absent; '
                            'round trips: ranks 1-3 incl. a length-1 axis, float/int data, 1-2 results written together, 4 missing-cell placements, through the real netCDF4 library',
                   'thorough': '3 cells'},
        'outside': ['the netCDF4 / HDF5 C library (dimension copy, fill values, compression, CRS attributes): only exercised by the concrete round trips', 'hard masks', 'unsigned wrap-around of Positive Integer'],
        'assumptions': D.STUBS + ['S-nc: netCDF4.Dataset is a stub whose variable[:] is an arbitrary soft-masked array; every path model is replayed on a real NetCDF file with the real library',
                                  'numpy.rint = round half to even'],
    }
