"""C20 -- parameter cleaning is typed, pure and idempotent."""
import sys
import copy
import posixpath

import z3

from .. import progx as P
from .. import symx
from ..symx import SymNum, SymStr, SymBool

PROP = 'C20'
WD = '/work/dir'


# ------------------------------------------------------------------ environment stub for os.path (S-os)
class _PathStub(object):
    def __init__(self):
        self.exists_memo = []

    def isabs(self, p):
        if isinstance(p, SymStr):
            return p.startswith('/')
        return posixpath.isabs(p)

    def join(self, a, b):
        if isinstance(a, SymStr) or isinstance(b, SymStr):
            if bool(self.isabs(b)):
                return b
            if isinstance(a, SymStr):
                if bool(a == '') or bool(a.endswith('/')):
                    return a + b
                return a + '/' + b
            if not a or a.endswith('/'):
                return a + b
            return a + '/' + b
        return posixpath.join(a, b)

    def exists(self, p):
        """arbitrary but functional: the same path always gets the same answer"""
        if symx.CTX is None:
            return True
        if not isinstance(p, str):
            raise TypeError("stat: path should be string, bytes, os.PathLike or integer, not %s" % type(p).__name__)
        t = p.e if isinstance(p, SymStr) else z3.StringVal(p)
        f = z3.Function('path_exists', z3.StringSort(), z3.BoolSort())
        return symx.CTX.decide(f(t))

    def dirname(self, p):
        return posixpath.dirname(p)


class _OsStub(object):
    def __init__(self):
        self.path = _PathStub()


def boot(scratch):
    P.boot(scratch)
    import mpilot.params as prm
    from numbers import Number
    Number.register(SymNum)
    prm.int = symx.IntShadow
    prm.float = symx.FloatShadow
    prm.os = _OsStub()
    import mpvnodes  # noqa: F401


# ------------------------------------------------------------------ raw values
CONCRETE_INTS = False     # BooleanParameter tests isinstance(value, int): integers are enumerated concretely for it
RAW_KINDS = ['other_number', 'int', 'float', 'bool', 'str', 'str_int', 'str_float', 'str_bool', 'list_int', 'list_str', 'list_mixed', 'nested', 'empty_list',
             'dict', 'empty_dict', 'none', 'command', 'result_name', 'type', 'abs_path', 'rel_path']


def make_raw(ctx, kind, tag='v'):
    """-> (raw value with proxies, spec tree for concretisation)"""
    if kind == 'other_number':
        import numpy
        from fractions import Fraction
        from decimal import Decimal
        i = ctx.choice(tag + '.othernum', 5)
        return [numpy.float32(2.5), Fraction(5, 2), Decimal('2.5'), numpy.int16(3), numpy.float64(-0.75)][i], ('othernum', i)
    if kind == 'int' and CONCRETE_INTS:
        i = [0, 1, 2, -3][ctx.choice(tag + '.intchoice', 4)]
        return i, ('const', i)
    if kind == 'int':
        v = SymNum(ctx.real(tag + '.int', integer=True), 'i')
        return v, ('num', v)
    if kind == 'float':
        v = SymNum(ctx.real(tag + '.float'), 'f')
        return v, ('num', v)
    if kind == 'bool':
        b = ctx.decide(ctx.bool(tag + '.bool'))
        return b, ('const', b)
    if kind in ('str', 'str_int', 'str_float', 'str_bool', 'abs_path', 'rel_path'):
        t = ctx.string(tag + '.' + kind)
        ctx.assume(z3.Length(t) <= 6)
        chars = z3.Union(z3.Range('0', '9'), z3.Range('a', 'z'), z3.Range('A', 'Z'), z3.Re('.'), z3.Re('-'), z3.Re('+'),
                         z3.Re(' '), z3.Re('_'), z3.Re('/'), z3.Re('"'), z3.Re('\\'))
        ctx.assume(z3.InRe(t, z3.Star(chars)))
        symx._number_grammars()
        if kind == 'str_int':
            ctx.assume(z3.InRe(t, symx.INT_TEXT))
        elif kind == 'str_float':
            ctx.assume(z3.And(z3.InRe(t, symx.FLOAT_TEXT), z3.Not(z3.InRe(t, symx.INT_TEXT))))
        elif kind == 'str_bool':
            ctx.assume(z3.InRe(t, z3.Union(symx.ci_regex('true'), symx.ci_regex('false'))))
        elif kind == 'abs_path':
            ctx.assume(z3.PrefixOf(z3.StringVal('/'), t))
        elif kind == 'rel_path':
            ctx.assume(z3.And(z3.Not(z3.PrefixOf(z3.StringVal('/'), t)), z3.Length(t) >= 1))
        v = SymStr(t)
        return v, ('str', v)
    if kind == 'list_int':
        items = [make_raw(ctx, 'int', '%s.%d' % (tag, i)) for i in range(2)]
        return [i[0] for i in items], ('list', [i[1] for i in items])
    if kind == 'list_str':
        items = [make_raw(ctx, 'str', '%s.%d' % (tag, i)) for i in range(2)]
        return [i[0] for i in items], ('list', [i[1] for i in items])
    if kind == 'list_mixed':
        items = [make_raw(ctx, k, '%s.%d' % (tag, i)) for i, k in enumerate(('int', 'str_float', 'bool'))]
        return [i[0] for i in items], ('list', [i[1] for i in items])
    if kind == 'nested':
        a = make_raw(ctx, 'list_int', tag + '.a')
        b = make_raw(ctx, 'int', tag + '.b')
        return [a[0], [b[0]]], ('list', [a[1], ('list', [b[1]])])
    if kind == 'empty_list':
        return [], ('list', [])
    if kind == 'dict':
        a = make_raw(ctx, 'str', tag + '.val')
        b = make_raw(ctx, 'int', tag + '.num')
        return {'DisplayName': a[0], 'Count': b[0]}, ('dict', {'DisplayName': a[1], 'Count': b[1]})
    if kind == 'empty_dict':
        return {}, ('dict', {})
    if kind == 'none':
        return None, ('const', None)
    if kind == 'type':
        i = ctx.choice(tag + '.type', 3)
        return [float, int, str][i], ('type', ['float', 'int', 'str'][i])
    if kind == 'command':
        return None, ('command', ctx.choice(tag + '.cmd', 3))
    if kind == 'result_name':
        i = ctx.choice(tag + '.name', 4)
        return ['data', 'fuzzy', 'plain', 'nosuch'][i], ('const', ['data', 'fuzzy', 'plain', 'nosuch'][i])
    raise ValueError(kind)


def concretise(spec, m):
    t = spec[0]
    if t == 'num':
        v = symx.model_value(m, spec[1].e)
        return {'t': 'num', 'v': int(v) if spec[1].kind == 'i' else float(v), 'int': spec[1].kind == 'i'}
    if t == 'str':
        return {'t': 'str', 'v': symx.model_value(m, spec[1].e)}
    if t == 'const':
        return {'t': 'const', 'v': spec[1]}
    if t == 'othernum':
        return {'t': 'othernum', 'v': spec[1]}
    if t == 'type':
        return {'t': 'type', 'v': spec[1]}
    if t == 'command':
        return {'t': 'command', 'v': spec[1]}
    if t == 'list':
        return {'t': 'list', 'v': [concretise(s, m) for s in spec[1]]}
    if t == 'dict':
        return {'t': 'dict', 'v': {k: concretise(s, m) for k, s in spec[1].items()}}
    raise ValueError(t)


def materialise(j, program):
    t = j['t']
    if t == 'num':
        return int(j['v']) if j['int'] else float(j['v'])
    if t in ('str', 'const'):
        return j['v']
    if t == 'othernum':
        import numpy
        from fractions import Fraction
        from decimal import Decimal
        return [numpy.float32(2.5), Fraction(5, 2), Decimal('2.5'), numpy.int16(3), numpy.float64(-0.75)][j['v']]
    if t == 'type':
        return {'float': float, 'int': int, 'str': str}[j['v']]
    if t == 'command':
        return list(program.commands.values())[j['v']]
    if t == 'list':
        return [materialise(x, program) for x in j['v']]
    if t == 'dict':
        return {k: materialise(x, program) for k, x in j['v'].items()}
    raise ValueError(t)


# ------------------------------------------------------------------ parameters under test
def wd_of(flag):
    return WD if flag is True else ('' if flag == '' else None)


def make_program(wd):
    import mpvnodes
    from mpilot import params as prm
    from mpilot.program import Program
    from mpilot.commands import Command

    class DataNode(Command):
        inputs = {}
        output = prm.DataParameter()

        def execute(self, **kw):
            return None

    class FuzzyNode(Command):
        is_fuzzy = True
        inputs = {}
        output = prm.DataParameter()

        def execute(self, **kw):
            return None
    p = Program(libraries=('mpvnodes',), working_dir=wd)
    p.add_command(DataNode, 'data', {})
    p.add_command(FuzzyNode, 'fuzzy', {})
    p.add_command(mpvnodes.Node, 'plain', {})
    return p


def make_param(name):
    from mpilot import params as prm
    table = {
        'Parameter': lambda: prm.Parameter(),
        'String': lambda: prm.StringParameter(),
        'Number': lambda: prm.NumberParameter(),
        'Boolean': lambda: prm.BooleanParameter(),
        'Path': lambda: prm.PathParameter(must_exist=False),
        'PathMustExist': lambda: prm.PathParameter(must_exist=True),
        'Result': lambda: prm.ResultParameter(),
        'ResultData': lambda: prm.ResultParameter(prm.DataParameter()),
        'ResultFuzzy': lambda: prm.ResultParameter(prm.DataParameter(), is_fuzzy=True),
        'ResultNonFuzzy': lambda: prm.ResultParameter(prm.DataParameter(), is_fuzzy=False),
        'ListNumber': lambda: prm.ListParameter(prm.NumberParameter()),
        'ListString': lambda: prm.ListParameter(prm.StringParameter()),
        'ListBoolean': lambda: prm.ListParameter(prm.BooleanParameter()),
        'ListListNumber': lambda: prm.ListParameter(prm.ListParameter(prm.NumberParameter())),
        'ListResult': lambda: prm.ListParameter(prm.ResultParameter()),
        'ListAny': lambda: prm.ListParameter(),
        'Tuple': lambda: prm.TupleParameter(),
        'DataType': lambda: prm.DataTypeParameter(valid_types=symx.SymDict({"Float": float, "Integer": int})),
    }
    return table[name]()


PARAMS = ['Parameter', 'String', 'Number', 'Boolean', 'Path', 'PathMustExist', 'Result', 'ResultData', 'ResultFuzzy', 'ResultNonFuzzy', 'ListNumber',
          'ListString', 'ListBoolean', 'ListListNumber', 'ListResult', 'ListAny', 'Tuple', 'DataType']


def plan(tier, seed):
    jobs = [dict(param='Path', raw='two-programs', wd=True)]
    for pn in PARAMS:
        for kind in RAW_KINDS:
            if kind in ('abs_path', 'rel_path') and not pn.startswith('Path') and pn != 'String':
                continue
            for wd in ((True, False, '') if pn.startswith('Path') else (True,)):
                jobs.append(dict(param=pn, raw=kind, wd=wd))
    return jobs


def snapshot(v):
    """structure of a raw value for the purity check: (python-level shape, list of leaf terms)"""
    if isinstance(v, SymNum):
        return ('num', v.kind), [v.e]
    if isinstance(v, SymStr):
        return ('str',), [v.e]
    if isinstance(v, list):
        parts = [snapshot(x) for x in v]
        return ('list', tuple(p[0] for p in parts)), [t for p in parts for t in p[1]]
    if isinstance(v, dict):
        parts = [(k, snapshot(x)) for k, x in v.items()]
        return ('dict', tuple((k, p[0]) for k, p in parts)), [t for _, p in parts for t in p[1]]
    return ('obj', id(v) if not isinstance(v, (bool, int, float, str, type(None))) else repr(v)), []


def equal_values(a, b):
    """-> (structurally comparable?, z3 term / bool saying the two cleaned values are equal)"""
    if isinstance(a, (SymNum, SymStr, SymBool)) or isinstance(b, (SymNum, SymStr, SymBool)):
        if isinstance(a, SymNum) or isinstance(b, SymNum):
            if isinstance(a, (bool,)) or isinstance(b, (bool,)) or isinstance(a, (str, list, dict)) or isinstance(b, (str, list, dict)):
                return z3.BoolVal(False)
            ka, kb = symx.kind_of(a), symx.kind_of(b)
            return z3.And(symx.lift(a) == symx.lift(b), z3.BoolVal(ka == kb))
        if isinstance(a, SymStr) or isinstance(b, SymStr):
            if not isinstance(a, str) or not isinstance(b, str):
                return z3.BoolVal(False)
            return symx._sterm(a) == symx._sterm(b)
        return (a.e if isinstance(a, SymBool) else z3.BoolVal(bool(a))) == (b.e if isinstance(b, SymBool) else z3.BoolVal(bool(b)))
    if isinstance(a, list) and isinstance(b, list):
        if len(a) != len(b):
            return z3.BoolVal(False)
        return z3.And(*[equal_values(x, y) for x, y in zip(a, b)]) if a else z3.BoolVal(True)
    if isinstance(a, dict) and isinstance(b, dict):
        if list(a.keys()) != list(b.keys()):
            return z3.BoolVal(False)
        return z3.And(*[equal_values(a[k], b[k]) for k in a]) if a else z3.BoolVal(True)
    if type(a) is not type(b):
        return z3.BoolVal(False)
    try:
        return z3.BoolVal(bool(a == b))
    except Exception:
        return z3.BoolVal(a is b)


def typed_ok(pn, raw_kind, out, wd):
    """documented type of a cleaned value (python-level part; symbolic parts are terms)"""
    def is_num(x):
        from numbers import Number
        return isinstance(x, SymNum) or isinstance(x, Number)

    def is_text(x):
        return isinstance(x, str)
    if pn == 'Number':
        if not is_num(out):
            return False
        if raw_kind in ('int', 'str_int'):
            return symx.kind_of(out) == 'i'
        if raw_kind in ('float', 'str_float'):
            return symx.kind_of(out) == 'f'
        return True
    if pn == 'Boolean':
        return isinstance(out, (bool, SymBool))
    if pn in ('String',):
        return is_text(out)
    if pn.startswith('Path'):
        if not is_text(out):
            return False
        if wd is True:
            return out.startswith('/') if not isinstance(out, SymStr) else z3.PrefixOf(z3.StringVal('/'), out.e)
        return True
    if pn.startswith('Result'):
        return hasattr(out, 'result_name')
    if pn == 'ListNumber':
        return isinstance(out, list) and all(is_num(x) for x in out)
    if pn == 'ListString':
        return isinstance(out, list) and all(is_text(x) for x in out)
    if pn == 'ListBoolean':
        return isinstance(out, list) and all(isinstance(x, (bool, SymBool)) for x in out)
    if pn == 'ListListNumber':
        return isinstance(out, list) and all(isinstance(x, list) and all(is_num(y) for y in x) for x in out)
    if pn == 'ListResult':
        return isinstance(out, list) and all(hasattr(x, 'result_name') for x in out)
    if pn == 'ListAny':
        return isinstance(out, list)
    if pn == 'Tuple':
        return isinstance(out, dict) and all(is_text(k) and is_text(v) for k, v in out.items())
    if pn == 'DataType':
        return isinstance(out, type)
    return True


WDFLAG = [True]
NON_SCALAR = ('list_int', 'list_str', 'list_mixed', 'nested', 'empty_list', 'dict', 'empty_dict', 'none', 'command', 'type')
STRS = ('str', 'str_int', 'str_float', 'str_bool', 'abs_path', 'rel_path', 'result_name')


def expected_outcome(pn, kind, wd):
    """documented outcome where the documentation settles it: True = must succeed, False = must raise the
    parameter error, None = depends on the value"""
    if pn in ('Parameter', 'String'):
        return True
    if pn == 'Number':
        if kind in ('int', 'float', 'bool', 'str_int', 'str_float', 'other_number'):
            return True
        if kind in NON_SCALAR or kind == 'str_bool':
            return False
        return None
    if pn == 'Boolean':
        if kind in ('bool', 'int', 'str_bool', 'str_int'):
            return True
        if kind in NON_SCALAR or kind in ('float', 'str_float'):
            return False
        return None
    if pn == 'Path':
        if kind == 'abs_path':
            return True
        if kind == 'rel_path':
            return wd is not False      # resolved against any working directory, including the empty one the CLI passes
        return None
    if pn == 'Tuple':
        if kind in ('dict', 'empty_dict', 'empty_list'):
            return True
        return False if kind not in ('list_int', 'list_str', 'list_mixed', 'nested') else False
    if pn == 'DataType':
        if kind in ('str', 'type', 'result_name'):
            return None
        return False
    if pn.startswith('List'):
        if kind in ('empty_list',):
            return True
        if kind not in ('list_int', 'list_str', 'list_mixed', 'nested'):
            return False
        if pn == 'ListAny':
            return True
        if pn == 'ListNumber' and kind == 'list_int':
            return True
        if pn == 'ListString':
            return True
        if pn == 'ListBoolean' and kind == 'list_int':
            return True
        return None
    if pn.startswith('Result'):
        if kind not in ('command', 'result_name'):
            return False
        return None
    return None


def expected_value(pn, kind, raw, out):
    """term saying the cleaned value is the documented one (where the documentation fixes it), else None"""
    if pn == 'Number' and kind in ('int', 'float'):
        return equal_values(raw, out)
    if pn == 'Number' and kind == 'other_number':
        return z3.BoolVal(bool(out == raw))       # every real-number type passes through with its value
    if pn == 'Boolean' and kind == 'int':
        return z3.BoolVal(out is (raw != 0)) if isinstance(out, bool) else None
    if pn == 'Boolean' and kind == 'bool':
        return z3.BoolVal(out is raw)
    if pn == 'Boolean' and kind == 'str_bool':
        want = z3.InRe(raw.e, symx.ci_regex('true'))
        return (out.e if isinstance(out, SymBool) else z3.BoolVal(bool(out))) == want
    if pn == 'Boolean' and kind == 'str_int':
        v = symx.text_to_number(raw, 'int')
        return (out.e if isinstance(out, SymBool) else z3.BoolVal(bool(out))) == (v != 0)
    if pn == 'String' and kind in STRS and isinstance(raw, str):
        return equal_values(raw, out)
    if pn == 'Path' and kind == 'abs_path':
        return equal_values(raw, out)
    if pn == 'Path' and kind == 'rel_path' and isinstance(out, str) and WDFLAG[0] is True:
        return symx._sterm(out) == z3.Concat(z3.StringVal(WD + '/'), raw.e)
    if pn == 'Path' and kind == 'rel_path' and isinstance(out, str) and WDFLAG[0] == '':
        return symx._sterm(out) == raw.e
    if pn == 'ListNumber' and kind == 'list_int':
        return equal_values(raw, out)
    return None


def call_clean(param, raw, program, E):
    try:
        return 'ok', param.clean(raw, program, lineno=7)
    except E.ParameterNotValid as e:
        return 'param-error:' + type(e).__name__, e
    except E.MPilotError as e:
        return 'param-error:' + type(e).__name__, e
    except (symx.Abort, symx.Outside, symx.Inconclusive):
        raise
    except Exception as e:
        return 'escaped:' + type(e).__name__, e


def two_programs_harness(ctx, cfg):
    """history: the same relative path is cleaned for two programs with different working directories (and for one
    program whose working directory is reassigned): each result depends only on the program it is cleaned for"""
    E = sys.modules['mpilot.exceptions']
    param = make_param('Path')
    raw, spec = make_raw(ctx, 'rel_path')
    order = ctx.choice('order', 3)
    p1, p2 = make_program('/first/dir'), make_program('/second/dir')
    outs = []
    seq = [(p1, '/first/dir'), (p2, '/second/dir'), (p1, '/first/dir')] if order == 0 else ([(p2, '/second/dir'), (p1, '/first/dir')] if order == 1 else [(p1, '/first/dir'), (p1, '/moved')])
    obs, groups = [], {}
    for i, (prog, wd) in enumerate(seq):
        prog.working_dir = wd
        oc, out = call_clean(param, raw, prog, E)
        lab = 'step %d: the relative path is resolved against the working directory %s of the program it is cleaned for (%s)' % (i, wd, oc)
        obs.append((lab, (symx._sterm(out) == z3.Concat(z3.StringVal(wd + '/'), raw.e)) if (oc == 'ok' and isinstance(out, str)) else z3.BoolVal(False)))
        groups[lab] = 'Path per-program'

    def conc(m, label):
        return {'param': 'Path', 'wd': True, 'raw': concretise(spec, m), 'raw_kind': 'two-programs', 'order': order}
    return {'outcome': 'two-programs', 'obligations': obs, 'groups': groups, 'concretise': conc, 'validated': True, 'replay': {'param': 'Path', 'raw_kind': 'two-programs'}}


def harness(ctx, cfg):
    if cfg['raw'] == 'two-programs':
        return two_programs_harness(ctx, cfg)
    E = sys.modules['mpilot.exceptions']
    global CONCRETE_INTS
    WDFLAG[0] = cfg['wd']
    CONCRETE_INTS = cfg['param'] in ('Boolean', 'ListBoolean')
    program = make_program(wd_of(cfg['wd']))
    param = make_param(cfg['param'])
    raw, spec = make_raw(ctx, cfg['raw'])
    if cfg['raw'] == 'command':
        raw = list(program.commands.values())[spec[1]]
    shape_before, leaves_before = snapshot(raw)
    cmds_before = list(program.commands.items())
    oc1, out1 = call_clean(param, raw, program, E)
    obs, groups = [], {}

    def ob(label, term, group):
        obs.append((label, term if z3.is_expr(term) else z3.BoolVal(bool(term))))
        groups[label] = '%s %s' % (cfg['param'], group)
    ob('cleaning returns a value or raises the parameter error (got %s)' % oc1, not oc1.startswith('escaped'), 'escaped-exception')
    exp = expected_outcome(cfg['param'], cfg['raw'], cfg['wd'])
    if exp is True:
        ob('a value of this kind is accepted (got %s)' % oc1, oc1 == 'ok', 'documented-accept')
    elif exp is False:
        ob('a value of this kind raises the parameter error (got %s)' % oc1, oc1.startswith('param-error'), 'documented-reject')
    if oc1 == 'ok':
        ev = expected_value(cfg['param'], cfg['raw'], raw, out1)
        if ev is not None:
            ob('the cleaned value is the documented one', ev, 'documented-value')
    # purity
    shape_after, leaves_after = snapshot(raw)
    ob('the raw argument is not altered', shape_before == shape_after and len(leaves_before) == len(leaves_after), 'purity')
    if leaves_before and len(leaves_before) == len(leaves_after):
        ob('the raw argument keeps its values', z3.And(*[a == b for a, b in zip(leaves_before, leaves_after)]), 'purity')
    ob('the program is not altered', list(program.commands.items()) == cmds_before and program.working_dir == wd_of(cfg['wd']), 'purity')
    # repeatability
    oc2, out2 = call_clean(param, raw, program, E)
    ob('cleaning the same raw value again gives the same outcome', oc1 == oc2, 'repeatable')
    if oc1 == 'ok' and oc2 == 'ok':
        ob('cleaning the same raw value again gives an equal value', equal_values(out1, out2), 'repeatable')
        ob('the cleaned value has the documented type', typed_ok(cfg['param'], cfg['raw'], out1, cfg['wd']), 'type')
        # idempotence (paths: under an absolute working directory)
        if not cfg['param'].startswith('Path') or cfg['wd'] is True:
            oc3, out3 = call_clean(param, out1, program, E)
            ob('cleaning an already-cleaned value succeeds (got %s)' % oc3, oc3 == 'ok', 'idempotent')
            if oc3 == 'ok':
                ob('cleaning an already-cleaned value returns it unchanged', equal_values(out1, out3), 'idempotent')

    def conc(m, label):
        return {'param': cfg['param'], 'wd': cfg['wd'], 'raw': concretise(spec, m), 'raw_kind': cfg['raw'],
                'exists': {str(k): v for k, v in []}}
    return {'outcome': oc1, 'obligations': obs, 'groups': groups, 'concretise': conc, 'validated': False,
            'replay': {'param': cfg['param'], 'raw_kind': cfg['raw']}, 'path_check': lambda m: path_check(conc(m, None), oc1)}


def concrete_run(rec):
    """the same checks on concrete values with the real builtins (the shadows defer to them for non-symbolic values)"""
    E = sys.modules['mpilot.exceptions']
    program = make_program(wd_of(rec['wd']))
    param = make_param(rec['param'])
    raw = materialise(rec['raw'], program)
    before = copy.deepcopy(raw) if not hasattr(raw, 'result_name') else raw
    saved_ctx = symx.CTX
    symx.CTX = symx.Ctx([], [])
    try:
        oc1, out1 = call_clean(param, raw, program, E)
        oc2, out2 = call_clean(param, raw, program, E)
        facts = {'outcome': oc1, 'escaped': oc1.startswith('escaped'), 'pure': (raw == before) if not hasattr(raw, 'result_name') else True, 'repeat': oc1 == oc2}
        exp = expected_outcome(rec['param'], rec.get('raw_kind'), rec['wd'])
        facts['documented_outcome'] = True if exp is None else ((oc1 == 'ok') if exp else oc1.startswith('param-error'))
        facts['documented_value'] = True
        facts['typed'] = True
        if oc1 == 'ok':
            t_ = typed_ok(rec['param'], rec.get('raw_kind'), out1, rec['wd'])
            facts['typed'] = bool(t_) if not z3.is_expr(t_) else True
            k = rec.get('raw_kind')
            if rec['param'] == 'Boolean' and k == 'str_bool':
                facts['documented_value'] = out1 is (raw.lower() == 'true')
            elif rec['param'] == 'Boolean' and k in ('int', 'bool'):
                facts['documented_value'] = out1 is bool(raw)
            elif rec['param'] == 'Boolean' and k == 'str_int':
                facts['documented_value'] = out1 is bool(int(raw))
            elif rec['param'] == 'Number' and k in ('int', 'float'):
                facts['documented_value'] = out1 == raw and type(out1) is type(raw)
            elif rec['param'] == 'Number' and k == 'other_number':
                facts['documented_value'] = bool(out1 == raw)
            elif rec['param'] in ('String',) and isinstance(raw, str):
                facts['documented_value'] = out1 == raw
            elif rec['param'] == 'Path' and k == 'abs_path':
                facts['documented_value'] = out1 == raw
            elif rec['param'] == 'Path' and k == 'rel_path':
                facts['documented_value'] = out1 == ((WD + '/' + raw) if rec['wd'] is True else raw)
        if oc1 == 'ok' and oc2 == 'ok':
            facts['repeat'] = facts['repeat'] and (out1 == out2 or out1 is out2)
            if not rec['param'].startswith('Path') or rec['wd'] is True:
                oc3, out3 = call_clean(param, out1, program, E)
                facts['idem'] = oc3 == 'ok' and (out3 == out1 or out3 is out1) and type(out3) is type(out1)
        return facts
    finally:
        symx.CTX = saved_ctx


def path_check(rec, oc):
    saved = symx.CTX
    try:
        f = concrete_run(rec)
    except (symx.Abort, symx.Outside, symx.Inconclusive, z3.Z3Exception):
        return True, 'concrete run needs the environment stub (path existence): not compared'
    finally:
        symx.CTX = saved
    a = oc.split(':')[0]
    b = f['outcome'].split(':')[0]
    if oc.startswith('param-error:PathDoesNotExist') or f['outcome'].startswith('param-error:PathDoesNotExist'):
        return True, 'path existence is environment-dependent'
    return a == b, 'symbolic outcome %s vs concrete %s on %s' % (oc, f['outcome'], rec['raw'])


def confirm(rec, label):
    if rec.get('raw_kind') == 'two-programs':
        E = sys.modules['mpilot.exceptions']
        param = make_param('Path')
        raw = rec['raw']['v']
        p1, p2 = make_program('/first/dir'), make_program('/second/dir')
        order = rec['order']
        seq = [(p1, '/first/dir'), (p2, '/second/dir'), (p1, '/first/dir')] if order == 0 else ([(p2, '/second/dir'), (p1, '/first/dir')] if order == 1 else [(p1, '/first/dir'), (p1, '/moved')])
        got = []
        saved_ctx = symx.CTX
        symx.CTX = symx.Ctx([], [])
        try:
            for prog, wd in seq:
                prog.working_dir = wd
                oc, out = call_clean(param, raw, prog, E)
                got.append((wd, out if oc == 'ok' else oc))
        finally:
            symx.CTX = saved_ctx
        bad = [g for g in got if g[1] != g[0] + '/' + raw]
        return bool(bad), 'concrete history on the relative path %r: %s' % (raw, got)
    f = concrete_run(rec)
    bad = f['escaped'] or not f['pure'] or not f['repeat'] or (f.get('idem') is False) or not f['documented_outcome'] or not f['documented_value'] or not f['typed']
    return bad, 'concrete run on %s with %s: %s' % (rec['param'], rec['raw'], f)


def run_job(cfg, seed):
    return P.run_struct_job(harness, cfg, PROP, seed, confirm=confirm, max_paths=cfg.get('max_paths', 5000))


def replay(rec):
    ok, why = confirm(rec['record'], rec.get('label'))
    return {'reproduced': ok, 'why': why}


def describe(tier):
    return {
        'level': 'model_checking',
        'functions': ['mpilot/params.py: clean() of Parameter, StringParameter, NumberParameter, BooleanParameter, PathParameter, ResultParameter, ListParameter, TupleParameter, DataTypeParameter'],
        'bounds': {'quick': '17 parameter configurations x 20 raw-value kinds (symbolic int / float, bool, symbolic strings of length <=6 incl. integer-, decimal- and boolean-text forms and absolute / relative paths, '
                            'lists of 2-3 items, nested list, dict, None, command objects, result names, types), with and without a working directory',
                   'thorough': 'same (the space is exhausted in the quick tier)'},
        'outside': ['strings longer than 6 characters / outside the stated alphabet', 'exact numeric value of int(text)/float(text) (an uninterpreted function of the text)', 'file-system state (path existence is an arbitrary function of the path)'],
        'assumptions': ['S-float/int: int()/float() in mpilot/params.py accept exactly the documented literal grammars on symbolic strings and are the builtins otherwise',
                        'S-os: posixpath isabs/join; exists() is an arbitrary function of the path', 'DataTypeParameter is instantiated with a lookup table that supports symbolic keys (same clean() code)',
                        'violations are replayed with concrete values on the real builtins'],
    }
