"""C15 -- serialising a program and loading it back gives the same program.

The serialiser builds text with C-level string formatting, which cannot run on symbolic strings.  The property is
therefore decided in two solver-backed layers:
  L-safe   (z3 regex lemma on the live lexer)  every string of the SAFE class, written between double quotes, is ONE
           STRING token spanning exactly that text; every float text of CPython's repr() language that the lexer must
           read back is ONE FLOAT token.  Unsat = lemma holds for all strings within the length bound.
  L-risk   z3 produces witnesses of every class OUTSIDE the safe language (quotes, backslashes, delimiters, comment
           sign, non-ASCII, line breaks, exponent-form floats ...); each witness value is put into a program through the
           real API and through source text, serialised by the real to_string(), re-loaded by the real from_source(),
           and compared argument by argument (cleaned values) and by execution result."""
import sys
import math
import collections

import z3

from .. import progx as P
from .. import symx
from .. import lexenc

PROP = 'C15'
LIBS = ('mpvnodes',)


def boot(scratch):
    P.boot(scratch)
    import mpvnodes  # noqa: F401
    import mpilot.parser.parser  # noqa: F401


# string classes: name -> python regex of the VALUE (without quotes)
SAFE = r'[A-Za-z0-9 _./:,#=()\[\]+\-]*'
CLASSES = collections.OrderedDict([
    ('safe', SAFE),
    ('double-quote', r'[a-z ]*"[a-z" ]*'),
    ('single-quote', r"[a-z ]*'[a-z' ]*"),
    ('both-quotes', r'[a-z]*"[a-z]*\'[a-z]*'),
    ('backslash', r'[A-Za-z:]*\\[a-z\\]*'),
    ('backslash-letter-escape', r'[A-Z]:\\[tnrbfvax0][a-z]*'),
    ('trailing-backslash', r'[a-z/]*\\'),
    ('non-ascii', r'[a-z]*[é中][a-z]*'),
    ('line-break', r'[a-z]*[\r\n][a-z]*'),
    ('crlf-pair', r'[a-z]*\r\n[a-z]*'),
    ('line-break-run', r'[a-z]*[\r\n][\r\n][a-z]*'),
    ('tab', r'[a-z]*\t[a-z]*'),
    ('leading-trailing-space', r' [a-z]* '),
    ('empty', r''),
    ('looks-like-number', r'[-+]?[0-9]+(\.[0-9]+)?'),
    ('looks-like-bool', r'(True|False|true|false)'),
    ('comment-sign', r'[a-z]*#[a-z ]*'),
    ('delimiters', r'[a-z]*[,:=()\[\]][a-z,:=()\[\] ]*'),
])

REPR_FLOAT = r'-?([0-9]+\.[0-9]+|[0-9](\.[0-9]+)?e[-+][0-9][0-9][0-9]?)'      # CPython repr(float) for finite values


def plan(tier, seed):
    jobs = [dict(kind='lemma-string'), dict(kind='lemma-float')]
    n = 4 if tier == 'quick' else 10
    for c in CLASSES:
        jobs.append(dict(kind='strings', cls=c, n=n, maxlen=6 if tier == 'quick' else 8))
    jobs.append(dict(kind='floats', n=6 if tier == 'quick' else 16))
    jobs.append(dict(kind='structure'))
    jobs.append(dict(kind='eems'))
    return jobs


# ------------------------------------------------------------------ lemmas
def lemma_string(ctx, cfg):
    live = lexenc.Live()
    v, rest = z3.String('v'), z3.String('rest')
    w = z3.Concat(z3.StringVal('"'), v, z3.StringVal('"'))
    ctx.inputs['v'] = v
    ctx.inputs['rest'] = rest
    ctx.assume(z3.InRe(v, lexenc.rx(SAFE)))
    ctx.assume(z3.Length(v) <= 8)
    ctx.assume(z3.InRe(rest, z3.Option(lexenc.charset(lambda c: c in ',)]\n '))))
    good = z3.And(live.first_match('t_STRING', w, rest), z3.Not(live.longer('t_STRING', w, rest)))
    obs = [('a string of the safe class written between double quotes is exactly one STRING token', good)]

    def conc(m, label):
        return {'kind': 'lemma-string', 'v': symx.model_value(m, v), 'rest': symx.model_value(m, rest)}
    return {'outcome': 'lemma', 'obligations': obs, 'groups': {obs[0][0]: 'lemma-safe-string'}, 'concretise': conc, 'replay': {'kind': 'lemma-string'}, 'validated': True}


def lemma_float(ctx, cfg):
    live = lexenc.Live()
    w, rest = z3.String('w'), z3.String('rest')
    ctx.inputs['w'] = w
    ctx.inputs['rest'] = rest
    ctx.assume(z3.InRe(w, lexenc.rx(REPR_FLOAT)))
    ctx.assume(z3.Length(w) <= 10)
    ctx.assume(z3.InRe(rest, lexenc.charset(lambda c: c in ',)]\n ')))
    good = z3.And(live.first_match('t_FLOAT', w, rest), z3.Not(live.longer('t_FLOAT', w, rest)))
    obs = [("every text of repr(float)'s language is exactly one FLOAT token", good)]

    def conc(m, label):
        return {'kind': 'lemma-float', 'w': symx.model_value(m, w), 'rest': symx.model_value(m, rest)}
    return {'outcome': 'lemma', 'obligations': obs, 'groups': {obs[0][0]: 'lemma-repr-float'}, 'concretise': conc, 'replay': {'kind': 'lemma-float'}, 'validated': True}


# ------------------------------------------------------------------ round trips on solver-produced witnesses
def witnesses(pattern, n, maxlen, extra=None):
    v = z3.String('v')
    base = [z3.InRe(v, lexenc.rx(pattern)), z3.Length(v) <= maxlen] + (extra(v) if extra else [])
    out, block = [], []
    for i in range(n):
        cons = list(base) + block
        if i % 2 == 1:
            cons.append(z3.Length(v) >= min(maxlen, 3))
        st, m = lexenc.solve(cons, timeout=20000)
        if st != 'sat':
            st, m = lexenc.solve(list(base) + block, timeout=20000)
            if st != 'sat':
                break
        val = symx.model_value(m, v)
        out.append(val)
        block.append(v != z3.StringVal(val))
    return out


def program_shape(p):
    """(result name, command class, [(argument name, cleaned value)]) in order"""
    out = []
    for name, c in p.commands.items():
        args = []
        for a in c.arguments:
            prm = c.inputs.get(a.name)
            v = a.value
            try:
                v = prm.clean(a.value, p, a.lineno) if prm is not None else a.value
            except Exception as e:       # noqa: B902
                v = ('<clean failed: %s>' % type(e).__name__)
            args.append((a.name, norm(v)))
        out.append((name, type(c).__name__, args))
    return out


def norm(v):
    if hasattr(v, 'result_name'):
        return ('ref', v.result_name)
    if isinstance(v, list):
        return [norm(x) for x in v]
    if isinstance(v, dict):
        return [(k, norm(x)) for k, x in v.items()]
    if isinstance(v, float) and v != v:
        return 'nan'
    return v


HISTORY = {'mode': 0}
POISON = {1: 'READ(InFileName = x.csv, InFieldName = A)\nB = Copy(\n  InFieldName = = A)\n',       # EEMS 2.0 command reduced, then a syntax error on line 3
          2: 'READ(InFileName = x.csv, InFieldName = A, NewFieldName = Z)\n'}                        # a successful EEMS 2.0 parse


def earlier_loads():
    """what the same process did before the reload: nothing, a load that FAILED after EEMS 2.0 syntax had been seen, or a
    load of an EEMS 2.0 file - the reload must not depend on it"""
    from mpilot.program import Program
    text = POISON.get(HISTORY['mode'])
    if text is None:
        return
    try:
        Program.from_source(text, libraries=('mpilot.libraries.eems.csv', 'mpilot.libraries.eems.basic'))
    except Exception:      # noqa: B902
        pass


def round_trip(build, label):
    """build() -> Program; serialise, reload, compare.  -> (ok, detail)"""
    from mpilot.program import Program
    E = sys.modules['mpilot.exceptions']
    try:
        p = build()
    except (E.MPilotError, SyntaxError) as e:
        return None, 'cannot build the original program: %s' % type(e).__name__
    before = program_shape(p)
    try:
        text = p.to_string()
    except Exception as e:      # noqa: B902
        return False, 'to_string raised %s: %s' % (type(e).__name__, e)
    earlier_loads()
    try:
        q = Program.from_source(text, libraries=LIBS)
    except (E.MPilotError, SyntaxError) as e:
        return False, 'the serialised text does not load (%s): %r' % (type(e).__name__, text[:160])
    after = program_shape(q)
    if before != after:
        return False, 'programs differ: %r -> %r via %r' % (before, after, text[:160])
    try:
        p.run()
        q.run()
        r1 = [norm(c._result) for c in p.commands.values()]
        r2 = [norm(c._result) for c in q.commands.values()]
    except E.MPilotError as e:
        return None, 'run failed: %s' % type(e).__name__
    if r1 != r2:
        return False, 'results differ: %r vs %r' % (r1, r2)
    return True, text


def echo_program(args):
    import mpvnodes
    from mpilot.program import Program
    p = Program(libraries=LIBS)
    p.add_command(mpvnodes.Node, 'X', {})
    p.add_command(mpvnodes.Echo, 'E', collections.OrderedDict(args))
    return p


def quote_for_source(v):
    """how a user writes the value in a command file: double quotes, backslash-escaping backslash, quote and control chars"""
    esc = v.replace('\\', '\\\\').replace('"', '\\"').replace('\n', '\\n').replace('\r', '\\r').replace('\t', '\\t')
    return '"%s"' % esc


def strings_harness(ctx, cfg):
    from mpilot.program import Program
    cls = cfg['cls']
    ws = witnesses(CLASSES[cls], cfg['n'], cfg['maxlen'])
    obs, groups = [], {}
    lab = 'the class %s has witnesses (else the check is vacuous)' % cls
    obs.append((lab, z3.BoolVal(bool(ws))))
    groups[lab] = 'vacuous ' + cls
    bad = []
    for v in ws:
        for how in ('api', 'source', 'list', 'metadata', 'metadata-key'):
            if how == 'metadata-key':
                if v == '':
                    continue
                build = lambda v=v: echo_program({'S': 'x', 'Metadata': collections.OrderedDict([(v, 'value'), ('Other', 'y')])})       # noqa: E731
            elif how == 'api':
                build = lambda v=v: echo_program({'S': v})       # noqa: E731
            elif how == 'list':
                build = lambda v=v: echo_program({'LS': [v, 'plain']})       # noqa: E731
            elif how == 'metadata':
                build = lambda v=v: echo_program({'S': 'x', 'Metadata': {'DisplayName': v, 'Other': 'y'}})       # noqa: E731
            else:
                if not v.isascii():
                    continue        # non-ASCII text in a source file is C10's subject (the lexer decodes it wrongly)
                build = lambda v=v: Program.from_source('X = Node()\nE = Echo(S = %s)' % quote_for_source(v), libraries=LIBS)       # noqa: E731
            ok, detail = round_trip(build, cls)
            if ok is None:
                continue
            lab = 'a %s string %r given through %s survives to_string() + from_source()' % (cls, v, how)
            obs.append((lab, z3.BoolVal(bool(ok))))
            groups[lab] = 'string-roundtrip %s' % cls
            if not ok:
                bad.append({'value': v, 'how': how, 'detail': detail})
    rec = {'kind': 'strings', 'cls': cls, 'witnesses': ws, 'failures': bad[:6]}
    return {'outcome': '%d witnesses' % len(ws), 'obligations': obs, 'groups': groups, 'replay': rec, 'validated': True, 'concretise': lambda m, l: rec}


def floats_harness(ctx, cfg):
    """witness texts of repr(float)'s language -> the float -> API program -> round trip"""
    ws = witnesses(REPR_FLOAT, cfg['n'], 9)
    vals = []
    for w in ws:
        try:
            vals.append(float(w))
        except ValueError:
            pass
    vals += [1e-05, 1e+16, 1.5e-07, -2.5e+20, 0.1, -0.0, 123456789.123, 5e-324, 1.7976931348623157e+308, 1e22, float(2 ** 53)]
    ints = [0, -1, 10 ** 18, -10 ** 30, 7]
    obs, groups, bad = [], {}, []
    for x in vals + ints:
        for how in ('N', 'L', 'LL'):
            args = {'N': x} if how == 'N' else ({'L': [x, 1]} if how == 'L' else {'LL': [[x], [1, 2]]})
            ok, detail = round_trip(lambda args=args: echo_program(args), 'number')
            if ok is None:
                continue
            lab = 'the number %r (%s) survives to_string() + from_source() as %s' % (x, type(x).__name__, how)
            obs.append((lab, z3.BoolVal(bool(ok))))
            groups[lab] = 'number-roundtrip ' + ('exponent-form' if 'e' in repr(x) else ('integer' if isinstance(x, int) else 'decimal'))
            if not ok:
                bad.append({'value': repr(x), 'how': how, 'detail': detail})
    rec = {'kind': 'floats', 'values': [repr(v) for v in vals + ints], 'failures': bad[:6]}
    return {'outcome': '%d values' % len(vals), 'obligations': obs, 'groups': groups, 'replay': rec, 'validated': True, 'concretise': lambda m, l: rec}


def structure_harness(ctx, cfg):
    """booleans, nested lists, references by name and by command object, metadata with several pairs, empty lists"""
    import mpvnodes
    from mpilot.program import Program
    kind = ctx.choice('structure', 9)
    obs, groups = [], {}

    def api():
        p = Program(libraries=LIBS)
        p.add_command(mpvnodes.Node, 'X', {})
        p.add_command(mpvnodes.Node, 'Y', {'D': 'X'})
        if kind == 0:
            p.add_command(mpvnodes.Echo, 'E', {'B': True, 'S': 'b'})
        elif kind == 1:
            p.add_command(mpvnodes.Echo, 'E', {'B': False, 'L': []})
        elif kind == 2:
            p.add_command(mpvnodes.Echo, 'E', {'LL': [[1, 2.5], [], [3]]})
        elif kind == 3:
            p.add_command(mpvnodes.Echo, 'E', {'R': 'Y', 'RL': ['X', 'Y']})
        elif kind == 4:
            p.add_command(mpvnodes.Echo, 'E', {'R': p.commands['Y'], 'RL': [p.commands['X'], 'Y']})
        elif kind == 5:
            p.add_command(mpvnodes.Echo, 'E', collections.OrderedDict([('S', 'a'), ('Metadata', collections.OrderedDict([('First', '1'), ('Second', '2'), ('Third', '3')]))]))
        elif kind == 6:
            p.add_command(mpvnodes.Echo, 'E', collections.OrderedDict([('N', 3), ('S', 'z'), ('B', 1), ('L', [1.5])]))
        elif kind == 7:
            p.add_command(mpvnodes.Echo, 'E', {'S': 5, 'N': '7', 'B': 'true'})
        else:
            p.add_command(mpvnodes.Echo, 'E', {'LS': ['a b', 'c,d', '']})
        return p
    names = ['booleans', 'false+empty-list', 'nested-lists', 'references-by-name', 'references-by-object', 'metadata-order', 'argument-order', 'loose-kinds', 'string-list']
    ok, detail = round_trip(api, names[kind])
    lab = 'a program with %s survives to_string() + from_source() (%s)' % (names[kind], (detail or '')[:120] if not ok else 'ok')
    obs.append((lab, z3.BoolVal(ok is not False)))
    groups[lab] = 'structure-roundtrip ' + names[kind]
    # and once more: serialising the reloaded program again is a fixed point (tuple order must not flip on every trip)
    if ok:
        p = api()
        t1 = p.to_string()
        t2 = Program.from_source(t1, libraries=LIBS).to_string()
        t3 = Program.from_source(t2, libraries=LIBS).to_string()
        lab = 'serialising is a fixed point after one trip (%s)' % names[kind]
        obs.append((lab, z3.BoolVal(t2 == t3)))
        groups[lab] = 'fixed-point ' + names[kind]
    rec = {'kind': 'structure', 'which': names[kind], 'detail': detail if not ok else ''}
    return {'outcome': names[kind], 'obligations': obs, 'groups': groups, 'replay': rec, 'validated': True}


def eems_harness(ctx, cfg):
    """a small EEMS model loaded from source: serialise, reload, run both, compare results"""
    import os
    import numpy
    from mpilot.program import Program
    E = sys.modules['mpilot.exceptions']
    data = os.path.join(P.SCRATCH, 'c15-%d.csv' % os.getpid())
    with open(data, 'w') as f:
        f.write('A,B\n1,0.5\n2,0.25\n4,-0.5\n-9999,3\n')
    src = '''A = EEMSRead(InFileName = "%s", InFieldName = A, MissingVal = -9999)
B = EEMSRead(InFileName = "%s", InFieldName = B)
F = CvtToFuzzy(InFieldName = A, TrueThreshold = 1e-05, FalseThreshold = 4, Metadata = [DisplayName: "Fuzzy A", Description: "x: y"])
G = CvtToFuzzyCurve(InFieldName = B, RawValues = [-1, 0.5, 3], FuzzyValues = [-1, 0.25, 1])
U = FuzzyWeightedUnion(InFieldNames = [F, G], Weights = [0.1, 2])
M = CvtToFuzzyMeanToMid(InFieldName = A, IgnoreZeros = False, FuzzyValues = [-1, -0.5, 0, 0.5, 1])
W = EEMSWrite(OutFileName = "%s", OutFieldNames = [U, F])
''' % (data, data, data + '.out')
    obs, groups = [], {}
    p = Program.from_source(src)
    text = p.to_string()
    try:
        earlier_loads()
        q = Program.from_source(text)
        p.run()
        q.run()
        same = all(numpy.ma.allequal(p.commands[k]._result, q.commands[k]._result) and
                   (numpy.ma.getmaskarray(p.commands[k]._result) == numpy.ma.getmaskarray(q.commands[k]._result)).all() for k in p.commands)
        detail = ''
    except (E.MPilotError, SyntaxError) as e:
        same, detail = False, '%s: %s' % (type(e).__name__, str(e)[:100])
    lab = 'an EEMS model computes identical results after a serialise/load trip (%s)' % (detail or 'ok')
    obs.append((lab, z3.BoolVal(bool(same))))
    groups[lab] = 'eems-roundtrip'
    try:
        after = p.to_string()
    except Exception as e:      # noqa: B902
        after = 'to_string raised %s' % type(e).__name__
    lab = 'running a program does not change what it serialises to (%s)' % ('ok' if after == text else 'differs: %r' % after[:200])
    obs.append((lab, z3.BoolVal(after == text)))
    groups[lab] = 'eems-serialisation-after-run'
    return {'outcome': 'eems', 'obligations': obs, 'groups': groups, 'replay': {'kind': 'eems', 'text': text[:600], 'detail': detail}, 'validated': True}


def harness(ctx, cfg):
    if cfg['kind'] in ('strings', 'floats', 'structure', 'eems'):
        HISTORY['mode'] = ctx.choice('history', 3)
    return {'lemma-string': lemma_string, 'lemma-float': lemma_float, 'strings': strings_harness, 'floats': floats_harness,
            'structure': structure_harness, 'eems': eems_harness}[cfg['kind']](ctx, cfg)


def confirm(rec, label):
    k = rec.get('kind')
    live = lexenc.Live()
    if k == 'lemma-string':
        text = '"%s"%s' % (rec['v'], rec['rest'])
        toks, _ = live.scan(text) if True else ([], 0)
        ok = bool(toks) and toks[0][0] == 'STRING' and toks[0][1] == rec['v']
        return not ok, 'real lexer on %r: %s' % (text, toks[:2])
    if k == 'lemma-float':
        text = rec['w'] + rec['rest']
        try:
            toks, _ = live.scan(text)
        except SyntaxError as e:
            return True, 'real lexer on %r: SyntaxError %s' % (text, e)
        ok = bool(toks) and toks[0][0] == 'FLOAT' and toks[0][1] == float(rec['w']) and (len(toks) == 1 or toks[1][3] == len(rec['w']))
        return not ok, 'real lexer on %r: %s' % (text, toks[:3])
    return True, 'the explored path executed the real serialiser and loader: %s' % (rec.get('failures') or rec.get('detail') or '')


def run_job(cfg, seed):
    return P.run_struct_job(harness, cfg, PROP, seed, confirm=confirm, max_paths=cfg.get('max_paths', 5000))


def replay(rec):
    ok, why = confirm(rec['record'], rec.get('label'))
    return {'reproduced': ok, 'why': why}


def describe(tier):
    return {
        'level': 'model_checking',
        'functions': ['mpilot/program.py: to_string (serialize_value, serialize_argument, serialize_command), from_source', 'mpilot/parser/parser.py: t_STRING, t_FLOAT, t_INT rules (live master regex) and the tuple / list grammar actions'],
        'bounds': {'quick': 'lemmas: all safe-class strings of <=8 characters and all repr(float) texts of <=10 characters (z3 regex validity on the live lexer); '
                            '16 string classes x 4 solver-produced witnesses (<=6 chars) x 4 ways into a program (API string, source text, string list, metadata value); repr(float) witnesses + 16 extreme numbers x 3 positions; 9 structure families incl. references by command object and metadata order; one EEMS model run before/after',
                   'thorough': '10 witnesses per class, strings <= 8 chars'},
        'outside': ['inf / nan (no literal exists in the command-file syntax)', 'strings longer than the bound', 'the serialiser is executed on solver-produced concrete witnesses, not symbolically (C-level str.format)'],
        'assumptions': ['S-repr: repr(float) of a finite value has the form -?d+.d+ or -?d(.d+)?e[+-]dd(d); decode of an escape-free ASCII string is the identity', 'A-lex on witnesses',
                        'harness commands Echo / Node of mpv/nodes/mpvnodes.py'],
    }
