"""C07 -- arithmetic commands are correct for all numeric types and input orders."""
import itertools

import z3

from .. import datacmd as D
from .. import symx

PROP = 'C07'
CMDS = ['Sum', 'WeightedSum', 'Multiply', 'AMinusB', 'ADividedByB', 'Minimum', 'Maximum', 'Mean', 'WeightedMean', 'Copy']
COMMUTATIVE = ['Sum', 'WeightedSum', 'Multiply', 'Minimum', 'Maximum', 'Mean', 'WeightedMean']


def boot(scratch):
    D.boot(scratch)


def arity(sp):
    if any(p.kind == 'arrlist' for p in sp.params):
        return None
    return sum(1 for p in sp.params if p.kind == 'arr')


def plan(tier, seed):
    specs = D.command_specs_cached()
    jobs = []
    kmax = 3 if tier == 'quick' else 5
    for name in CMDS:
        if name not in specs:
            jobs.append({'kind': 'missing', 'cmd': name})
            continue
        sp = specs[name]
        ar = arity(sp)
        ks = [ar] if ar is not None else list(range(1, kmax + 1))
        weighted = any(p.name == 'Weights' for p in sp.params)
        for k in ks:
            n = 2 if k <= 3 else 1
            kindvecs = [''.join(v) for v in itertools.product('if', repeat=k)]
            if k >= 4:
                kindvecs = ['i' * k, 'f' * k, 'i' + 'f' * (k - 1), 'f' + 'i' * (k - 1), 'i' * (k - 1) + 'f']
            # unsigned integers (the NetCDF reader's "Positive Integer"): alone and with every other type, 1-2 inputs
            if k == 1:
                kindvecs = kindvecs + ['u']
            elif k == 2:
                kindvecs = kindvecs + ['uu', 'ui', 'iu', 'uf', 'fu']
            elif k == 3 and tier != 'quick':
                kindvecs = kindvecs + ['uuu', 'uiu', 'fuu']
            for kv in kindvecs:
                wkinds = ['f']
                if weighted:
                    wkinds = ['f' * k, 'i' * k] + (['i' + 'f' * (k - 1), 'f' + 'i' * (k - 1)] if k > 1 else [])
                for wk in wkinds:
                    reps = (['m'] + (['d'] if kv in ('f', 'ff', 'ii', 'i') and wk in ('f', 'ff') else [])) if tier == 'quick' else ['m', 'n', 'd']
                    if tier == 'thorough' and k >= 2:
                        reps.append('mn')
                    if k >= 4:
                        reps = ['m']
                    # mixes of array representations (plain ndarray / no mask array / masked) decide which numpy
                    # code path an accumulating implementation takes
                    if k == 2 and (tier != 'quick' or kv in ('ff', 'if')) and wk in ('f', 'ff'):
                        reps = reps + ['dm', 'md', 'nm']
                    elif k == 3 and tier != 'quick' and kv in ('fff', 'iff') and wk in ('f', 'fff'):
                        reps = reps + ['dmm', 'mdm']
                    for rp in reps:
                        jobs.append(dict(kind='def', cmd=name, k=k, shape=[n], kinds=kv, wkinds=wk, reps=rp))
                    # a grid instead of a column (rank 2)
                    if kv == 'f' * k and wk in ('f', 'f' * k) and k <= (2 if tier == 'quick' else 3):
                        jobs.append(dict(kind='def', cmd=name, k=k, shape=[2, 2] if k <= 2 else [1, 2], kinds=kv, wkinds=wk, reps='m'))
        # ---- order invariance for commutative commands
        if name in COMMUTATIVE:
            for k in range(2, min(kmax, 4) + 1):
                kindvecs = [''.join(v) for v in itertools.product('if', repeat=k)] if k <= 3 else ['iiif', 'fiii', 'ifif']
                for kv in kindvecs:
                    for t in range(k - 1):
                        if kv[t] == kv[t + 1] and not weighted:
                            if tier == 'quick':
                                continue
                        wks = ['f' * k]
                        if weighted:
                            wks = ['f' * k, 'i' + 'f' * (k - 1), 'i' * k]
                        for wk in wks:
                            jobs.append(dict(kind='perm', cmd=name, k=k, shape=[2 if k <= 2 else 1], kinds=kv, wkinds=wk, reps='m', t=t))
        # ---- declared errors
        if ar is None:
            jobs.append(dict(kind='empty', cmd=name, k=0))
            for k in (2, 3):
                for pos in range(k):
                    for shp in ([3], [2, 1], [1, 2]):
                        jobs.append(dict(kind='shapes', cmd=name, k=k, shape=[2], odd=pos, oddshape=shp, kinds='f' * k, wkinds='f' * k, reps='m'))
            if weighted:
                for k in (1, 2, 3):
                    for nw in (0, k - 1, k + 1):
                        if nw >= 0:
                            jobs.append(dict(kind='weights', cmd=name, k=k, nweights=nw, shape=[2], kinds='f' * k, wkinds='f' * max(nw, 1), reps='m'))
        elif ar == 2:
            for pos in range(2):
                for shp in ([3], [2, 1]):
                    jobs.append(dict(kind='shapes', cmd=name, k=2, shape=[2], odd=pos, oddshape=shp, kinds='ff', wkinds='ff', reps='m'))
    return jobs


def mk_inputs(ctx, cfg, prefix='x'):
    k = cfg['k']
    kinds = cfg.get('kinds', 'f' * k)
    reps = cfg.get('reps', 'm')
    hs = []
    for j in range(k):
        shape = tuple(cfg['oddshape']) if cfg.get('odd') == j else tuple(cfg['shape'])
        rep = D.REPS[reps[j] if j < len(reps) else reps[-1]]
        hs.append(D.sym_array(ctx, '%s%d' % (prefix, j), shape, kinds[j], rep, fuzzy=False))
    return hs


def mk_kwargs(ctx, sp, hs, cfg, weights=None):
    kw = {}
    it = iter(hs)
    for p in sp.params:
        if p.kind == 'arr':
            kw[p.name] = next(it)
        elif p.kind == 'arrlist':
            kw[p.name] = list(hs)
        elif p.name == 'Weights':
            if weights is not None:
                kw[p.name] = weights
            else:
                nw = cfg.get('nweights', cfg['k'])
                wk = cfg.get('wkinds', 'f' * nw)
                kw[p.name] = [D.sym_num(ctx, 'w%d' % j, wk[j] if j < len(wk) else wk[-1]) for j in range(nw)]
    return kw


def scenario(ctx, cfg):
    specs = D.command_specs_cached()
    kind = cfg['kind']
    if kind == 'missing':
        raise RuntimeError('command %s is not defined by the basic library' % cfg['cmd'])
    sp = specs[cfg['cmd']]
    hs = mk_inputs(ctx, cfg)
    kw = mk_kwargs(ctx, sp, hs, cfg)
    if kind == 'def':
        snap = D.snapshot_inputs(kw)
        r = D.run_cmd(ctx, sp.name, kw)
        obs = [D.fact_ob('command succeeds for element types %s (weights %s)' % (cfg['kinds'], cfg.get('wkinds')), ('ok', 0), group='dtype-outcome')]
        o2, ref = D.oracle_obligations(sp, kw, snap, r, want=('mask', 'value', 'kind', 'type', 'shape'), in_shape=cfg['shape'])
        return obs + o2
    if kind == 'perm':
        t = cfg['t']
        hs2 = list(hs)
        hs2[t], hs2[t + 1] = hs2[t + 1], hs2[t]
        w2 = None
        if 'Weights' in kw:
            w2 = list(kw['Weights'])
            w2[t], w2[t + 1] = w2[t + 1], w2[t]
        kw2 = mk_kwargs(ctx, sp, hs2, cfg, weights=w2)
        r0 = D.run_cmd(ctx, sp.name, kw)
        r1 = D.run_cmd(ctx, sp.name, kw2)
        obs = [D.fact_ob('both input orders succeed or fail alike', ('same_outcome', 0, 1), group='perm-outcome')]
        return obs + D.equal_results_obs(r0, r1, 'inputs %d,%d swapped' % (t, t + 1), 'perm')
    if kind == 'empty':
        r = D.run_cmd(ctx, sp.name, kw)
        return [D.fact_ob('empty input list is reported as EmptyInputs', ('outcome_in', 0, ['mpilot:EmptyInputs', 'mpilot:MismatchedWeights']), group='empty')]
    if kind == 'shapes':
        r = D.run_cmd(ctx, sp.name, kw)
        return [D.fact_ob('mismatched shapes are reported as MixedArrayShapes', ('outcome_in', 0, ['mpilot:MixedArrayShapes']), group='shapes')]
    if kind == 'weights':
        r = D.run_cmd(ctx, sp.name, kw)
        return [D.fact_ob('wrong number of weights is reported as MismatchedWeights', ('outcome_in', 0, ['mpilot:MismatchedWeights']), group='weights')]
    raise ValueError(kind)


def run_job(cfg, seed):
    return D.run_scenario_job(scenario, cfg, PROP, seed, max_paths=cfg.get('max_paths', 20000))


def replay(rec):
    return D.replay_record(rec)


def describe(tier):
    return {
        'level': 'model_checking',
        'functions': ['mpilot/libraries/eems/basic.py: execute() of ' + ', '.join(CMDS),
                      'mpilot/libraries/eems/mixins.py: validate_array_shapes', 'mpilot/libraries/eems/exceptions.py (declared errors)'],
        'bounds': {
            'quick': '1-3 inputs, EVERY element-type vector in {int64,float64}^k, weight vectors all-float / all-int / mixed, 2 cells, all mask placements; every adjacent transposition for commutative commands; shape mismatch at every position (3 odd shapes), weight-count mismatch, empty list',
            'thorough': '1-5 inputs (>=4 inputs: 1 cell, representative type vectors), masked / nomask / plain inputs',
        },
        'outside': ['IEEE-754 rounding, int64 overflow', 'unsigned data above 2^20 (only the wrap below zero is modelled), 8/16/32-bit element types', 'weights summing to zero are covered only as "result missing"', 'hard masks'],
        'assumptions': D.STUBS + ["numpy's same-kind casting rule for in-place operators is part of symnp and validated per path against real numpy",
                                  'reference = mpv/oracle.py; result element type: integer only if all inputs (and weights) are integer and the operation is closed on integers'],
    }
