"""C16 -- EEMS 2.0 command files translate to equivalent MPilot programs."""
import sys
import collections

import z3

from .. import progx as P
from .. import symx
from ..symx import SymNum, SymStr
from . import C12

PROP = 'C16'
CSV = ('mpilot.libraries.eems.basic', 'mpilot.libraries.eems.csv', 'mpilot.libraries.eems.fuzzy')
NC = ('mpilot.libraries.eems.basic', 'mpilot.libraries.eems.netcdf', 'mpilot.libraries.eems.fuzzy')
TABLE = None


def boot(scratch):
    global TABLE
    C12.boot(scratch)
    import mpilot.utils as U
    import mpilot.program as PR
    TABLE = dict(U.EEMS_COMMANDS)
    sd = symx.SymDict(U.EEMS_COMMANDS)
    U.EEMS_COMMANDS = sd
    PR.EEMS_COMMANDS = sd


def plan(tier, seed):
    jobs = [dict(kind='table', v2=k) for k in sorted(TABLE)]
    jobs += [dict(kind='rewrite', nargs=n) for n in ((0, 1, 2) if tier == 'quick' else (0, 1, 2, 3))]
    jobs += [dict(kind='equiv', v2=k) for k in sorted(TABLE)]
    jobs.append(dict(kind='version'))
    return jobs


def table_harness(ctx, cfg):
    from mpilot.program import Program
    k = cfg['v2']
    target = TABLE[k]
    obs, groups = [], {}
    for libs, nm in ((CSV, 'CSV'), (NC, 'NetCDF')):
        try:
            lib = Program(libraries=libs).command_library
            ok = target in lib
        except ImportError:
            continue
        lab = 'EEMS 2.0 name %s maps to %s, which exists in the %s library set' % (k, target, nm)
        obs.append((lab, z3.BoolVal(ok)))
        groups[lab] = 'unmapped-name ' + k
    return {'outcome': 'table', 'obligations': obs, 'groups': groups, 'replay': {'kind': 'table', 'v2': k, 'target': target}, 'validated': True}


def rewrite_harness(ctx, cfg):
    """the real convert_eems2_commands on a node with symbolic result name / command / argument names"""
    U = sys.modules['mpilot.utils']
    pp = sys.modules['mpilot.parser.parser']
    n = cfg['nargs']

    def sstr(name, maxlen=12):
        v = ctx.string(name)
        ctx.assume(z3.Length(v) <= maxlen)
        ctx.assume(z3.InRe(v, z3.Star(z3.Union(z3.Range('A', 'Z'), z3.Range('a', 'z')))))
        return SymStr(v)
    has_name = ctx.decide(ctx.bool('has_result_name'))
    rname = sstr('result_name', 4) if has_name else None
    if has_name:
        ctx.assume(z3.Length(rname.e) >= 1)
    cmd = sstr('command', 17)
    ln = SymNum(ctx.real('lineno', integer=True), 'i')
    args = []
    for i in range(n):
        an = sstr('argname%d' % i, 12)
        av = sstr('argval%d' % i, 3)
        ctx.assume(z3.Length(av.e) >= 1)
        al = SymNum(ctx.real('argline%d' % i, integer=True), 'i')
        args.append(pp.ArgumentNode(an, pp.ExpressionNode(av, al), al))
    node = pp.CommandNode(rname, cmd, args, ln)

    def conc(mdl, label):
        ev = lambda x: symx.model_value(mdl, x.e)        # noqa: E731
        return {'kind': 'rewrite-reject', 'result_name': ev(rname) if rname is not None else None, 'command': ev(cmd),
                'args': [[ev(a.name), ev(a.value.value)] for a in args]}
    E = sys.modules['mpilot.exceptions']
    try:
        out = U.convert_eems2_commands([node])
    except E.MPilotError as e:
        # names are plain words here ([A-Za-z]*): nothing the conversion may refuse
        lab = 'a command whose names and values are plain words is converted (%s)' % type(e).__name__
        return {'outcome': 'rejected', 'obligations': [(lab, z3.BoolVal(False))], 'groups': {lab: 'rewrite-rejected'}, 'concretise': conc,
                'replay': {'kind': 'rewrite', 'nargs': n}, 'validated': True}
    obs, groups = [], {}

    def ob(label, term, group):
        obs.append((label, term if z3.is_expr(term) else z3.BoolVal(bool(term))))
        groups[label] = group
    ob('one node in, one node out', len(out) == 1, 'rewrite-count')
    o = out[0]
    # ---- result name: given name, else NewFieldName, else InFieldName (first occurrence)
    def first_val(nm):
        t = None
        for a in reversed(args):
            cond = a.name.e == z3.StringVal(nm)
            t = a.value.value.e if t is None else z3.If(cond, a.value.value.e, t)
        found = z3.Or(*[a.name.e == z3.StringVal(nm) for a in args]) if args else z3.BoolVal(False)
        # proper first-match chain
        val = z3.StringVal('')
        for a in reversed(args):
            val = z3.If(a.name.e == z3.StringVal(nm), a.value.value.e, val)
        return found, val
    fn, vn = first_val('NewFieldName')
    fi, vi = first_val('InFieldName')
    if has_name:
        ob('a given result name is kept', isinstance(o.result_name, str) and symx._sterm(o.result_name) == rname.e, 'rewrite-result-name')
    else:
        want = z3.If(fn, vn, vi)
        anyname = z3.Or(fn, fi)
        if isinstance(o.result_name, str):
            ob('without a result name the NewFieldName, else the InFieldName, becomes the result name', z3.And(anyname, symx._sterm(o.result_name) == want), 'rewrite-result-name')
        else:
            ob('a result name is derived whenever NewFieldName or InFieldName is given', z3.Not(anyname), 'rewrite-result-name')
    # ---- command renamed per table, else unchanged
    want_cmd = cmd.e
    for k, v in TABLE.items():
        want_cmd = z3.If(cmd.e == z3.StringVal(k), z3.StringVal(v), want_cmd)
    ob('the command is renamed per the table and otherwise unchanged', isinstance(o.command, str) and symx._sterm(o.command) == want_cmd, 'rewrite-command')
    ob('the command line number is kept', symx.lift(o.lineno) == ln.e if o.lineno is not None else False, 'rewrite-lineno')
    # ---- NewFieldName / OutFileName dropped, the rest kept in order with their lines
    kept = list(o.arguments)
    drop = [z3.Or(a.name.e == z3.StringVal('NewFieldName'), a.name.e == z3.StringVal('OutFileName')) for a in args]
    # on this path membership tests were decided: the surviving arguments are objects of the input list
    idx = [next((i for i, a in enumerate(args) if a is k_), None) for k_ in kept]
    ob('surviving arguments are the original argument nodes in their original order', all(i is not None for i in idx) and idx == sorted(idx), 'rewrite-arguments')
    for i, a in enumerate(args):
        ob('argument %d is dropped iff it is NewFieldName or OutFileName' % i, drop[i] == z3.BoolVal(i not in idx), 'rewrite-arguments')
    return {'outcome': 'rewritten', 'obligations': obs, 'groups': groups, 'replay': {'kind': 'rewrite', 'nargs': n}, 'validated': True}


def valid_text_args(cls, skip=()):
    """argument text of a valid call of cls inside the host model of C12"""
    parts = collections.OrderedDict()
    for name, val in C12.valid_args(cls).items():
        if name in skip:
            continue
        if isinstance(val, list):
            parts[name] = '[%s]' % ', '.join(str(v) for v in val)
        elif isinstance(val, bool):
            parts[name] = 'True' if val else 'False'
        elif isinstance(val, str) and ('/' in val or ' ' in val):
            parts[name] = '"%s"' % val
        else:
            parts[name] = str(val)
    return parts


def equiv_harness(ctx, cfg):
    """v2 text of one command (+ host) vs the v3 text obtained by the documented mapping, both through the real from_source"""
    from mpilot.program import Program
    E = sys.modules['mpilot.exceptions']
    k = cfg['v2']
    target = TABLE[k]
    lib = Program(libraries=CSV).command_library
    rec = {'kind': 'equiv', 'v2': k, 'target': target}
    if target not in lib:
        lab = 'EEMS 2.0 command %s has an MPilot counterpart to compare with' % k
        return {'outcome': 'unmapped', 'obligations': [(lab, z3.BoolVal(False))], 'groups': {lab: 'unmapped-name ' + k}, 'replay': rec, 'validated': True}
    cls = lib[target]
    args = valid_text_args(cls, skip=('NewFieldName', 'OutFileName'))
    with_new = ctx.choice('new_field_name', 2)
    with_out = ctx.choice('out_file_name', 2) if 'OutFileName' not in cls.inputs else 0
    mixed = ctx.choice('mixed_with_v3', 2)
    host_v3 = ['A = EEMSRead(InFileName = "%s", InFieldName = A)' % C12.DATA, 'B = EEMSRead(InFileName = "%s", InFieldName = B)' % C12.DATA,
               'F = CvtToFuzzy(InFieldName = A)', 'F2 = CvtToFuzzy(InFieldName = B, Direction = HighToLow)']
    host_v2 = ['READ(InFileName = "%s", InFieldName = A)' % C12.DATA, 'READ(InFileName = "%s", InFieldName = B)' % C12.DATA,
               'CVTTOFUZZY(InFieldName = A, NewFieldName = F)', 'CVTTOFUZZY(InFieldName = B, Direction = HighToLow, NewFieldName = F2)']
    v2args = collections.OrderedDict(args)
    infield = args.get('InFieldName')
    if with_new or infield is None or not isinstance(infield, str):
        v2args['NewFieldName'] = 'T'
        rname = 'T'
    else:
        rname = infield
    if with_out:
        v2args['OutFileName'] = 'unused.csv'
    if rname in ('A', 'B', 'F', 'F2'):
        v2args['NewFieldName'] = 'T'
        rname = 'T'
    v2 = (host_v3 if mixed else host_v2) + ['%s(%s)' % (k, ', '.join('%s = %s' % kv for kv in v2args.items()))]
    v3 = host_v3 + ['%s = %s(%s)' % (rname, target, ', '.join('%s = %s' % kv for kv in args.items()))]
    rec.update(v2_text='\n'.join(v2), v3_text='\n'.join(v3))
    obs, groups = [], {}
    try:
        p2 = Program.from_source('\n'.join(v2))
        p3 = Program.from_source('\n'.join(v3))
    except (E.MPilotError, SyntaxError) as e:
        lab = 'both renderings load (%s: %s)' % (type(e).__name__, str(e)[:80])
        return {'outcome': 'load-error', 'obligations': [(lab, z3.BoolVal(False))], 'groups': {lab: 'equiv-load ' + k}, 'replay': rec, 'validated': True}

    def shape(p):
        return [(nm, type(c).__name__, [(a.name, a.value) for a in c.arguments]) for nm, c in p.commands.items()]
    lab = 'the EEMS 2.0 file loads to the same program (result names, command types, arguments) as its MPilot translation'
    obs.append((lab, z3.BoolVal(shape(p2) == shape(p3))))
    groups[lab] = 'equiv-structure'
    return {'outcome': 'loaded', 'obligations': obs, 'groups': groups, 'replay': rec, 'validated': True}


def version_harness(ctx, cfg):
    pp = sys.modules['mpilot.parser.parser']
    order = ctx.choice('order', 3)
    texts = {'v2': 'READ(InFileName = a.csv, InFieldName = A)', 'v3': 'A = EEMSRead(InFileName = a.csv, InFieldName = A)',
             'mixed': 'A = EEMSRead(InFileName = a.csv, InFieldName = A)\nCVTTOFUZZY(InFieldName = A, NewFieldName = F)'}
    seqs = [['v2', 'v3'], ['v3', 'v2', 'v3'], ['mixed', 'v3']]
    parser = pp.Parser()
    obs, groups = [], {}
    for i, nm in enumerate(seqs[order]):
        tree = parser.parse(texts[nm])
        want = 3 if nm == 'v3' else 2
        lab = 'parse %d of sequence %s: a %s file is detected as version %d' % (i, seqs[order], nm, want)
        obs.append((lab, z3.BoolVal(tree.version == want)))
        groups[lab] = 'version-detection'
    return {'outcome': 'versions', 'obligations': obs, 'groups': groups, 'replay': {'kind': 'version', 'sequence': seqs[order]}, 'validated': True}


def harness(ctx, cfg):
    return {'table': table_harness, 'rewrite': rewrite_harness, 'equiv': equiv_harness, 'version': version_harness}[cfg['kind']](ctx, cfg)


def confirm(rec, label):
    if rec.get('kind') != 'rewrite-reject':
        return True, 'the explored path executed the real code on concrete structure'
    U = sys.modules['mpilot.utils']
    pp = sys.modules['mpilot.parser.parser']
    E = sys.modules['mpilot.exceptions']
    node = pp.CommandNode(rec['result_name'], rec['command'], [pp.ArgumentNode(a, pp.ExpressionNode(v, 1), 1) for a, v in rec['args']], 1)
    try:
        U.convert_eems2_commands([node])
    except E.MPilotError as e:
        return True, 'real convert_eems2_commands on %s(%s) -> %s: %s' % (rec['command'], rec['args'], type(e).__name__, str(e)[:120])
    return False, 'real convert_eems2_commands accepts %s(%s)' % (rec['command'], rec['args'])


def run_job(cfg, seed):
    return P.run_struct_job(harness, cfg, PROP, seed, confirm=confirm, max_paths=cfg.get('max_paths', 20000))


def replay(rec):
    r = rec['record']
    if r.get('kind') == 'table':
        from mpilot.program import Program
        missing = [nm for libs, nm in ((CSV, 'CSV'), (NC, 'NetCDF')) if r['target'] not in Program(libraries=libs).command_library]
        return {'reproduced': bool(missing), 'why': '%s -> %s missing in %s' % (r['v2'], r['target'], missing)}
    if r.get('kind') == 'rewrite-reject':
        ok, why = confirm(r, rec.get('label'))
        return {'reproduced': ok, 'why': why}
    return {'reproduced': True, 'why': 're-run the check: the explored path executed the real code'}


def describe(tier):
    return {
        'level': 'model_checking',
        'functions': ['mpilot/utils.py: EEMS_COMMANDS, convert_eems2_commands', 'mpilot/program.py: from_source (version handling)', 'mpilot/parser/parser.py: p_eems2_command, p_program (version)'],
        'bounds': {'quick': 'all 25 table rows against both library sets; convert_eems2_commands on one node with symbolic result name (or none), symbolic command name (<=17 letters: decided against all 25 keys), 0-2 arguments with symbolic names/values/line numbers; '
                            'for every mapped name: v2 rendering (with/without NewFieldName, OutFileName, mixed with MPilot-style host commands) vs the v3 rendering through the real from_source, structurally compared; version detection over 3 parse sequences',
                   'thorough': 'up to 3 symbolic arguments'},
        'outside': ['numeric equality of results of the two programs (their structure is identical, evaluation is C02)', 'argument names longer than 12 letters'],
        'assumptions': ['EEMS_COMMANDS is wrapped in a lookup table that supports symbolic keys (same contents)', 'z3 sequence theory for names'],
    }
