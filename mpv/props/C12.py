"""C12 -- models are accepted iff well-formed, and rejected before any side effect.

A valid host model (two CSV reads, one fuzzy conversion, the target command, a writer) is built through the real
Program API; the solver picks ONE fault (kind, parameter, injected value kind, position of the target command in
the file) per path; values inside a kind are symbolic where the code inspects them.  Every execute() is wrapped by
a recorder and the output file is watched: a rejected model must raise the specific error with an empty recorder
and no output file, an accepted model must reach its first execute()."""
import os
import sys
import json
import collections

import z3

from .. import progx as P
from .. import symx
from ..symx import SymNum, SymStr

PROP = 'C12'
LIBS = ('mpilot.libraries.eems.basic', 'mpilot.libraries.eems.csv', 'mpilot.libraries.eems.fuzzy')
RECORD = []
DATA = None
OUT = None


def boot(scratch):
    global DATA, OUT
    P.boot(scratch)
    from numbers import Number
    import mpilot.params as prm
    Number.register(SymNum)
    prm.int = symx.IntShadow
    prm.float = symx.FloatShadow
    DATA = os.path.join(scratch, 'c12-data.csv')
    OUT = os.path.join(scratch, 'c12-out-%d.csv' % os.getpid())
    with open(DATA, 'w') as f:
        f.write('A,B,C\n1,0.5,3\n2,0.25,1\n4,-0.5,2\n')
    from mpilot.program import Program
    p = Program(libraries=LIBS)
    for cls in p.command_library.values():
        wrap(cls)


def wrap(cls):
    orig = cls.execute
    if getattr(orig, '_c12', False):
        return

    def execute(self, **kw):
        RECORD.append(self.result_name)
        return orig(self, **kw)
    execute._c12 = True
    cls.execute = execute


# ------------------------------------------------------------------ declarations -> parameter kinds
def pkind(p):
    prm = sys.modules['mpilot.params']
    if isinstance(p, prm.ResultParameter):
        return 'result'
    if isinstance(p, prm.ListParameter):
        return 'list:' + pkind(p.value_type)
    if isinstance(p, prm.PathParameter):
        return 'path'
    if isinstance(p, prm.DataTypeParameter):
        return 'datatype'
    if isinstance(p, prm.StringParameter):
        return 'string'
    if isinstance(p, prm.NumberParameter):
        return 'number'
    if isinstance(p, prm.BooleanParameter):
        return 'boolean'
    if isinstance(p, prm.TupleParameter):
        return 'tuple'
    return 'any'


def library():
    from mpilot.program import Program
    return Program(libraries=LIBS).command_library


def valid_value(cls, name, p):
    k = pkind(p)
    if k == 'result':
        return 'F' if p.is_fuzzy else 'A'
    if k == 'list:result':
        return ['F', 'F2'] if p.value_type.is_fuzzy else ['A', 'B']
    if k == 'number':
        return 1 if name == 'NumberToConsider' else (0.75 if 'True' in name else 0.25)
    if k == 'list:number':
        if name == 'Weights':
            return [0.5, 1.5]
        if 'IgnoreZeros' in cls.inputs:
            return [-1, -0.5, 0, 0.5, 1]
        return [1, 3] if ('Raw' in name or 'ZScore' in name) else [-0.5, 0.5]
    if k == 'boolean':
        return False
    if k == 'string':
        return {'Direction': 'LowToHigh', 'TruestOrFalsest': 'Truest', 'InFieldName': 'C'}.get(name, 'text')
    if k == 'path':
        return DATA if p.must_exist else OUT
    if k == 'datatype':
        return 'Float'
    if k == 'tuple':
        return {'DisplayName': 'x'}
    return 'x'


def valid_args(cls, only_required=False):
    args = collections.OrderedDict()
    for name, p in cls.inputs.items():
        if name == 'Metadata':
            continue
        if only_required and not p.required:
            continue
        args[name] = valid_value(cls, name, p)
    return args


# ------------------------------------------------------------------ reference: does a value of kind V satisfy a parameter of kind K?
VALUE_KINDS = ['int', 'float', 'numtext', 'text', 'bool', 'list_num', 'list_text', 'dict', 'empty_list', 'ref_data', 'ref_fuzzy', 'ref_unfuzzied', 'ref_missing', 'ref_bool_output', 'ref_no_output']


NUMBERS = [0, 1.5, -2, 7]
NUMTEXTS = ['1', '2.5', '1e3', '-0', ' 3 ', 'inf', '-Infinity', 'nan', '1e999']
TEXTS = ['abc', '1x', '--1', 'a.b', 'True!', '']


def make_value(ctx, vk):
    """values inside a kind are enumerated from small representative sets through solver-visible choices
    (the value-level behaviour of clean() is the subject of C20, with symbolic values)"""
    if vk == 'int':
        return [0, 1, -2, 7][ctx.choice('inj.int', 4)]
    if vk == 'float':
        return [0.0, 1.5, -2.25][ctx.choice('inj.float', 3)]
    if vk == 'numtext':
        return NUMTEXTS[ctx.choice('inj.numtext', len(NUMTEXTS))]
    if vk == 'text':
        return TEXTS[ctx.choice('inj.text', len(TEXTS))]
    if vk == 'bool':
        return bool(ctx.choice('inj.bool', 2))
    if vk == 'list_num':
        return [NUMBERS[ctx.choice('inj.l0', len(NUMBERS))], 2]
    if vk == 'list_text':
        return ['zz', 'yy']
    if vk == 'dict':
        return {'k': 'v'}
    if vk == 'empty_list':
        return []
    return {'ref_data': 'A', 'ref_fuzzy': 'F', 'ref_unfuzzied': 'NF', 'ref_missing': 'Nope', 'ref_bool_output': 'PV', 'ref_no_output': 'W0'}[vk]


def expect(pk, p, vk):
    """reference verdict for a value of kind vk given to a parameter of kind pk:
    None = accepted, a set of admissible error class names = rejected, 'skip' = the documentation does not settle it"""
    PNV = {'ParameterNotValid'}
    if pk == 'number':
        if vk in ('int', 'float', 'numtext'):
            return None
        if vk == 'bool':
            return 'skip'
        return PNV
    if pk == 'boolean':
        if vk in ('bool', 'int'):
            return None
        if vk in ('float',):
            return PNV          # a float is not a boolean form
        if vk == 'numtext':
            return 'skip'       # integer text is a boolean form, decimal text is not: covered by C20
        return PNV
    if pk in ('string', 'path', 'any'):
        return 'skip' if pk == 'path' else None
    if pk == 'datatype':
        return PNV
    if pk == 'tuple':
        return None if vk in ('dict', 'empty_list') else PNV
    if pk == 'list:number':
        return None if vk in ('list_num', 'empty_list') else PNV
    if pk == 'list:result':
        if vk == 'empty_list':
            return None
        if vk in ('list_text',):
            return {'ResultDoesNotExist'}
        if vk == 'list_num':
            return PNV
        return PNV
    if pk == 'result':
        if vk in ('ref_missing', 'text', 'numtext'):
            return {'ResultDoesNotExist'}
        if vk in ('int', 'float', 'bool', 'list_num', 'list_text', 'dict', 'empty_list'):
            return PNV
        need_fuzzy = p.is_fuzzy
        has_type = p.output_type is not None
        if vk in ('ref_data', 'ref_unfuzzied'):
            return {'ResultNotFuzzy'} if need_fuzzy is True else None
        if vk == 'ref_fuzzy':
            return {'ResultIsFuzzy'} if need_fuzzy is False else None
        if vk in ('ref_bool_output', 'ref_no_output'):
            if need_fuzzy is True:
                return {'ResultNotFuzzy', 'ResultTypeNotValid'}
            return {'ResultTypeNotValid'} if has_type else None
    return 'skip'


# ------------------------------------------------------------------ the scenario
def plan(tier, seed):
    lib = library()
    jobs = []
    for name in sorted(lib):
        jobs.append(dict(target=name))
    jobs.append(dict(target='*netcdf-host'))
    jobs.append(dict(target='*relative-paths'))
    jobs.append(dict(target='*path-history'))
    return jobs


NC_LIBS = ('mpilot.libraries.eems.basic', 'mpilot.libraries.eems.netcdf', 'mpilot.libraries.eems.fuzzy')


def special_harness(ctx, cfg):
    """(a) the NetCDF library set: the fuzzy / non-fuzzy discipline with the NetCDF reader as producer;
    (b) relative paths under every form of working directory the API and the CLI produce"""
    import numpy
    E = sys.modules['mpilot.exceptions']
    from mpilot.program import Program
    obs, groups = [], {}
    if cfg['target'] == '*netcdf-host':
        from netCDF4 import Dataset
        path = os.path.join(P.SCRATCH, 'c12-%d.nc' % os.getpid())
        with Dataset(path, 'w') as ds:
            ds.createDimension('x', 3)
            v = ds.createVariable('v', 'f8', ('x',))
            v[:] = numpy.array([0.5, -0.25, 1.0])
        lib = Program(libraries=NC_LIBS).command_library
        for c in lib.values():
            wrap(c)
        scen = ctx.choice('scenario', 6)
        dt = ['', ', DataType = "Fuzzy"', ', DataType = "Float"'][ctx.choice('datatype', 3)]
        host = 'A = EEMSRead(InFileName = "%s", InFieldName = v%s)\nF = CvtToFuzzy(InFieldName = A, TrueThreshold = 1, FalseThreshold = -1)\n' % (path, dt)
        tail, want = [('T = FuzzyNot(InFieldName = A)', {'ResultNotFuzzy'}), ('T = Copy(InFieldName = A)', None), ('T = FuzzyOr(InFieldNames = [F, A])', {'ResultNotFuzzy'}),
                      ('T = AMinusB(A = A, B = F)', {'ResultIsFuzzy'}), ('T = CvtFromFuzzy(InFieldName = A, TrueThreshold = 2, FalseThreshold = 0)', {'ResultNotFuzzy'}),
                      ('T = FuzzyAnd(InFieldNames = [F, F])', None)][scen]
        src = (tail + '\n' + host) if ctx.choice('position', 2) == 0 else (host + tail + '\n')
        del RECORD[:]
        try:
            Program.from_source(src, libraries=NC_LIBS).run()
            oc = 'accepted'
        except E.MPilotError as e:
            oc = ('late:' if RECORD else 'rejected:') + type(e).__name__
        except Exception as e:      # noqa: B902
            oc = 'escaped:' + type(e).__name__
        lab = 'NetCDF host, %s: %s (%s)' % (tail, 'accepted' if want is None else 'rejected with ' + '/'.join(want), oc)
        obs.append((lab, z3.BoolVal(oc == 'accepted' if want is None else (oc.startswith('rejected:') and oc.split(':')[1] in want))))
        groups[lab] = 'netcdf-host ' + ('rejected-wellformed' if want is None else 'accepted-illformed')
        rec = {'target': cfg['target'], 'source': src, 'outcome': oc}
    elif cfg['target'] == '*path-history':
        # the same path through two Programs of one process, with the world changing in between: a file that existed for
        # the first Program is deleted / the same relative name belongs to another working directory
        import shutil
        scen = ctx.choice('history', 3)
        d1 = os.path.join(P.SCRATCH, 'c12h-%d-one' % os.getpid())
        d2 = os.path.join(P.SCRATCH, 'c12h-%d-two' % os.getpid())
        for d_ in (d1, d2):
            shutil.rmtree(d_, ignore_errors=True)
            os.makedirs(d_)
        with open(os.path.join(d1, 'layer.csv'), 'w') as f:
            f.write('A\n1\n2\n')
        if scen == 2:
            with open(os.path.join(d2, 'layer.csv'), 'w') as f:
                f.write('A\n7\n8\n')
        rel = scen >= 1
        src = 'Z = EEMSRead(InFileName = "%s", InFieldName = A)\nA = EEMSRead(InFileName = "%s", InFieldName = A)\nT = Copy(InFieldName = A)\n' % (DATA, 'layer.csv' if rel else os.path.join(d1, 'layer.csv'))
        first = None
        try:
            Program.from_source(src, libraries=LIBS, working_dir=d1).run()
            first = 'accepted'
        except Exception as e:      # noqa: B902
            first = 'failed:' + type(e).__name__
        if scen == 0:
            os.remove(os.path.join(d1, 'layer.csv'))
        del RECORD[:]
        got = None
        try:
            p2 = Program.from_source(src, libraries=LIBS, working_dir=(d1 if scen == 0 else d2))
            p2.run()
            oc = 'accepted'
            got = [float(x) for x in p2.commands['T']._result]
        except E.MPilotError as e:
            oc = ('late:' if RECORD else 'rejected:') + type(e).__name__
        except Exception as e:      # noqa: B902
            oc = 'escaped:' + type(e).__name__
        what = ['the file is deleted after the first Program ran', 'the second Program has a working directory without that file', 'the second Program has a working directory with its own file of that name'][scen]
        if scen == 2:
            ok = oc == 'accepted' and got == [7.0, 8.0]
            lab = 'path history (%s): the second Program reads ITS file [7, 8] (first run %s; second %s %s)' % (what, first, oc, got)
        else:
            ok = oc == 'rejected:PathDoesNotExist'
            lab = 'path history (%s): the second Program is rejected with PathDoesNotExist before anything runs (first run %s; second %s)' % (what, first, oc)
        obs.append((lab, z3.BoolVal(bool(ok) and first == 'accepted')))
        groups[lab] = 'path-history ' + ('accepted-illformed' if scen < 2 else 'wrong-file')
        rec = {'target': cfg['target'], 'source': src, 'scenario': scen, 'outcome': oc}
    else:
        wdk = ctx.choice('working_dir', 5)
        d = P.SCRATCH
        wd = [None, '', '.', d, os.path.join(d, '')][wdk]
        rel = ctx.choice('relative', 2)
        fname = 'c12-data.csv' if rel else DATA
        src = 'A = EEMSRead(InFileName = "%s", InFieldName = A)\nT = Copy(InFieldName = A)\n' % fname
        old = os.getcwd()
        os.chdir(d)
        del RECORD[:]
        try:
            try:
                Program.from_source(src, libraries=LIBS, working_dir=wd).run()
                oc = 'accepted'
            except E.MPilotError as e:
                oc = ('late:' if RECORD else 'rejected:') + type(e).__name__
            except Exception as e:      # noqa: B902
                oc = 'escaped:' + type(e).__name__
        finally:
            os.chdir(old)
        want = {'InvalidRelativePath'} if (rel and wd is None) else None
        lab = 'a %s path with working directory %r: %s (%s)' % ('relative' if rel else 'absolute', wd, 'accepted' if want is None else 'InvalidRelativePath', oc)
        obs.append((lab, z3.BoolVal(oc == 'accepted' if want is None else oc == 'rejected:InvalidRelativePath')))
        groups[lab] = 'working-directory ' + ('rejected-wellformed' if want is None else 'accepted-illformed')
        rec = {'target': cfg['target'], 'source': src, 'working_dir': wd, 'outcome': oc}
    return {'outcome': oc, 'obligations': obs, 'groups': groups, 'replay': rec, 'validated': True}


def build_host(program, lib, target_cls, target_args, position, extra=None):
    """host commands + target; position 0 = target first in the file, 1 = target last (before the writers)"""
    host = [
        ('A', lib['EEMSRead'], {'InFileName': DATA, 'InFieldName': 'A'}),
        ('B', lib['EEMSRead'], {'InFileName': DATA, 'InFieldName': 'B'}),
        ('F', lib['CvtToFuzzy'], {'InFieldName': 'A'}),
        ('F2', lib['CvtToFuzzy'], {'InFieldName': 'B', 'Direction': 'HighToLow'}),
        ('NF', lib['CvtFromFuzzy'], {'InFieldName': 'F', 'TrueThreshold': 5, 'FalseThreshold': 1}),
        ('PV', lib['PrintVars'], {'InFieldNames': ['A']}),
        ('W0', lib['EEMSWrite'], {'OutFileName': OUT, 'OutFieldNames': ['A']}),
    ]
    tgt = ('T', target_cls, target_args)
    seq = ([tgt] + host) if position == 0 else (host + [tgt])
    if extra:
        seq = seq + [extra]
    for nm, cls, args in seq:
        program.add_command(cls, nm, collections.OrderedDict(args))


def attempt(lib, target_cls, target_args, position, extra=None, unknown=None):
    """-> (outcome, detail).  outcome: 'accepted' | 'rejected:<Class>' | 'late:<Class>' (error after an execute ran) | 'escaped:<Class>'"""
    E = sys.modules['mpilot.exceptions']
    from mpilot.program import Program
    del RECORD[:]
    if os.path.exists(OUT):
        os.remove(OUT)
    try:
        if unknown is not None:
            src = 'A = EEMSRead(InFileName = "%s", InFieldName = "A")\nT = %s(InFieldName = A)\n' % (DATA, unknown)
            if position == 0:
                src = '\n'.join(reversed(src.strip().split('\n'))) + '\n'
            p = Program.from_source(src, libraries=LIBS)
        else:
            p = Program(libraries=LIBS)
            build_host(p, lib, target_cls, target_args, position, extra)
        p.run()
    except E.MPilotError as e:
        cls = type(e).__name__
        wrote = os.path.exists(OUT)
        if RECORD or wrote:
            if cls in VALIDATION:
                return 'late:' + cls, 'executed before rejection: %s; output written: %s' % (RECORD[:4], wrote)
            return 'accepted', 'run-time error %s after validation' % cls
        return 'rejected:' + cls, getattr(e, 'lineno', None)
    except (symx.Abort, symx.Outside, symx.Inconclusive):
        raise
    except Exception as e:
        return 'escaped:' + type(e).__name__, str(e)[:100]
    return 'accepted', ''


VALIDATION = {'CommandDoesNotExist', 'DuplicateResult', 'MissingParameters', 'NoSuchParameter', 'ParameterNotValid', 'PathDoesNotExist', 'InvalidRelativePath',
              'ResultDoesNotExist', 'ResultTypeNotValid', 'ResultNotFuzzy', 'ResultIsFuzzy'}


def harness(ctx, cfg):
    if cfg['target'].startswith('*'):
        return special_harness(ctx, cfg)
    lib = library()
    for c in lib.values():
        wrap(c)
    tcls = lib[cfg['target']]
    params = [(n, p) for n, p in tcls.inputs.items()]
    position = ctx.choice('position', 2)
    faults = ['none', 'unknown-command', 'duplicate-result', 'undeclared-parameter', 'required-only']
    faults += ['missing:' + n for n, p in params if p.required]
    faults += ['kind:%s:%s' % (n, vk) for n, p in params for vk in VALUE_KINDS]
    fi = ctx.choice('fault', len(faults))
    fault = faults[fi]
    args = valid_args(tcls)
    extra = None
    unknown = None
    want = None         # None = must be accepted; set = admissible rejection classes; 'skip'
    rec = {'target': cfg['target'], 'fault': fault, 'position': position}
    if fault == 'required-only':
        args = valid_args(tcls, only_required=True)
    elif fault == 'unknown-command':
        unknown = cfg['target'] + 'X'
        want = {'CommandDoesNotExist'}
    elif fault == 'duplicate-result':
        extra = ('T', lib['Copy'], {'InFieldName': 'A'})
        want = {'DuplicateResult'}
    elif fault == 'undeclared-parameter':
        args['NoSuchParam'] = 1
        want = {'NoSuchParameter'} if not getattr(tcls, 'allow_extra_inputs', False) else None
    elif fault.startswith('missing:'):
        del args[fault.split(':', 1)[1]]
        want = {'MissingParameters'}
    elif fault.startswith('kind:'):
        _, pn, vk = fault.split(':')
        p = dict(params)[pn]
        val = make_value(ctx, vk)
        args[pn] = val
        want = expect(pkind(p), p, vk)
        if pn in ('InFileName', 'OutFileName', 'DimensionFileName'):
            want = 'skip'
        rec['injected_kind'] = vk
        rec['_val'] = val
    oc, detail = attempt(lib, tcls, args, position, extra, unknown)
    obs, groups = [], {}

    def ob(label, ok, group):
        obs.append((label, z3.BoolVal(bool(ok))))
        groups[label] = group
    ob('no validation error is raised after a command has executed or output was written (%s)' % oc, not oc.startswith('late:'), 'late-rejection')
    ob('only MPilot errors are raised (%s)' % oc, not oc.startswith('escaped:'), 'escaped-exception')
    pk = pkind(dict(params)[fault.split(':')[1]]) if fault.startswith('kind:') else ''
    tag = ('%s<-%s' % (pk, fault.split(':')[2])) if fault.startswith('kind:') else fault.split(':')[0]
    if want is None:
        ob('well-formed model is accepted (%s)' % oc, oc == 'accepted', 'rejected-wellformed ' + tag)
    elif want != 'skip':
        ob('ill-formed model (%s) is rejected with %s before anything runs (%s)' % (fault, '/'.join(sorted(want)), oc),
           oc.startswith('rejected:') and oc.split(':', 1)[1] in want, 'accepted-illformed ' + tag)

    def conc(m, label):
        r = {k: v for k, v in rec.items() if k != '_val'}
        if rec.get('_val') is not None:
            r['value'] = rec['_val']
        r['want'] = None if want is None else (want if want == 'skip' else sorted(want))
        return r
    return {'outcome': oc, 'obligations': obs, 'groups': groups, 'concretise': conc,
            'replay': {k: v for k, v in rec.items() if k != '_val'}, 'validated': True}


def concrete_attempt(rec):
    lib = library()
    for c in lib.values():
        wrap(c)
    tcls = lib[rec['target']]
    args = valid_args(tcls)
    extra = unknown = None
    fault = rec['fault']
    if fault == 'required-only':
        args = valid_args(tcls, only_required=True)
    elif fault == 'unknown-command':
        unknown = rec['target'] + 'X'
    elif fault == 'duplicate-result':
        extra = ('T', lib['Copy'], {'InFieldName': 'A'})
    elif fault == 'undeclared-parameter':
        args['NoSuchParam'] = 1
    elif fault.startswith('missing:'):
        del args[fault.split(':', 1)[1]]
    elif fault.startswith('kind:'):
        args[fault.split(':')[1]] = rec.get('value')
    saved = symx.CTX
    symx.CTX = symx.Ctx([], [])
    try:
        return attempt(lib, tcls, args, rec['position'], extra, unknown)
    finally:
        symx.CTX = saved


def path_check(rec, oc):
    oc2, detail = concrete_attempt(rec)
    return oc2 == oc, 'symbolic path outcome %s vs concrete run %s on %s' % (oc, oc2, rec)


def confirm(rec, label):
    if rec.get('target', '').startswith('*'):
        return True, 'the explored path executed the real loader: %s' % rec.get('outcome')
    oc, detail = concrete_attempt(rec)
    want = rec.get('want')
    bad = oc.startswith('late:') or oc.startswith('escaped:')
    if want is None:
        bad = bad or oc != 'accepted'
    elif want != 'skip':
        bad = bad or not (oc.startswith('rejected:') and oc.split(':', 1)[1] in want)
    return bad, 'concrete run: %s %s (documented: %s)' % (oc, detail, 'accepted' if want is None else want)


def run_job(cfg, seed):
    return P.run_struct_job(harness, cfg, PROP, seed, confirm=confirm, max_paths=cfg.get('max_paths', 5000))


def replay(rec):
    ok, why = confirm(rec['record'], rec.get('label'))
    return {'reproduced': ok, 'why': why}


def describe(tier):
    return {
        'level': 'model_checking',
        'functions': ['mpilot/program.py: add_command, from_source, find_command_class, run (pre-pass)', 'mpilot/commands.py: Command.run, validate_params',
                      'mpilot/params.py: clean() of every parameter class', 'mpilot/exceptions.py', 'declarations (inputs/output/is_fuzzy) of every command of the eems basic, csv and fuzzy libraries'],
        'bounds': {'quick': 'every built-in command of the CSV library set as target x {valid, required-only, unknown command, duplicate result, undeclared parameter, each required parameter missing, each parameter x 12 injected value kinds '
                            '(numbers, numeric texts, non-numeric texts from small representative sets, bool, number list, text list, dict, reference to data / fuzzy / missing / boolean-output / no-output result)} x target first or last in the file, inside a 7-command host model',
                   'thorough': 'same matrix (exhausted in the quick tier)'},
        'outside': ['two simultaneous faults', 'the NetCDF library set (its commands need netCDF files)', 'path parameters (existence is environment)', 'value kinds the documentation does not settle (bool for a number, numeric text for a boolean) are not asserted'],
        'assumptions': ['reference predicate = Appendix D of DESIGN.md, computed from the live declarations', 'every execute() is wrapped by a recorder; the writer output file is watched',
                        'S-float/int stubs in mpilot/params.py for symbolic text'],
    }
