"""C06 -- fuzzy-logic operators compute the EEMS definitions and obey their algebra."""
import json

import z3

from .. import datacmd as D

PROP = 'C06'
OPS = ['FuzzyOr', 'FuzzyAnd', 'FuzzyNot', 'FuzzyUnion', 'FuzzyWeightedUnion', 'FuzzySelectedUnion', 'FuzzyXOr']


def boot(scratch):
    D.boot(scratch)


def plan(tier, seed):
    specs = D.command_specs_cached()
    jobs = []
    kmax = 3 if tier == 'quick' else 4
    for name in OPS:
        if name not in specs:
            jobs.append({'kind': 'missing', 'cmd': name})
            continue
        sp = specs[name]
        nary = any(p.kind == 'arrlist' for p in sp.params)
        ks = list(range(1, kmax + 1)) if nary else [1]
        if tier == 'thorough' and nary:
            ks.append(5)
        for k in ks:
            if name == 'FuzzyXOr' and k < 2:
                continue        # fewer than two inputs: outside the claim (no second-truest value exists)
            sorting = name in ('FuzzySelectedUnion', 'FuzzyXOr')
            if k <= 2:
                shapes = [(2,)] if tier == 'quick' else [(3,), (2,)]
            elif k == 3:
                shapes = [(2,)] if not sorting or tier == 'thorough' else [(1,)]
                if sorting and tier == 'quick':
                    shapes = [(1,)]
            else:
                shapes = [(1,)] if sorting else [(2,)]
            for shape in shapes:
                # array representations: masked arrays, arrays without a mask array (n), plain ndarrays (d), and mixes -
                # the first input's representation decides which numpy code path an accumulating implementation takes
                if tier == 'quick':
                    repsets = ['m'] + (['dm', 'md', 'nm'] if k == 2 else [])
                else:
                    repsets = ['m', 'mn', 'nm', 'd', 'dm', 'md'] if k <= 2 else (['m', 'dmm', 'mdm', 'nmm'] if k == 3 else ['m'])
                variants = [dict(reps=r_) for r_ in repsets]
                # element types: integer-typed fuzzy inputs (-1, 0, 1 - e.g. a binary layer), alone and mixed with floats
                if k <= 2 or tier == 'thorough':
                    variants += [dict(reps='m', kinds=kk) for kk in (['i'] if k == 1 else ['i', 'if', 'fi'])]
                    if name == 'FuzzyWeightedUnion':
                        variants += [dict(reps='m', kinds=kk, numkind='i') for kk in ('i', 'f')]       # whole-number weights
                for var in variants:
                    base = dict(kind='def', cmd=name, shape=list(shape), k=k, **var)
                    if name == 'FuzzySelectedUnion':
                        for which in ('Truest', 'Falsest'):
                            for sel in range(1, k + 1):
                                jobs.append(dict(base, sel=sel, str={'TruestOrFalsest': which}))
                    else:
                        jobs.append(base)
        # ---- input-order invariance: adjacent transpositions generate every permutation
        if nary:
            for k in range(2, kmax + 1):
                if name == 'FuzzyXOr' and k < 2:
                    continue
                sorting = name in ('FuzzySelectedUnion', 'FuzzyXOr')
                shape = [1] if (sorting and k >= 3) else [2]
                for t in range(k - 1):
                    base = dict(kind='perm', cmd=name, shape=shape, k=k, reps='m', t=t)
                    if name == 'FuzzySelectedUnion':
                        for which in ('Truest', 'Falsest'):
                            for sel in (range(1, k + 1) if tier == 'thorough' else sorted({1, k - 1, k} - {0})):
                                jobs.append(dict(base, sel=sel, str={'TruestOrFalsest': which}))
                    else:
                        jobs.append(base)
    for k in ([1, 2, 3] if tier == 'quick' else [1, 2, 3, 4]):
        shape = [2] if k <= 2 else [1]
        if k == 1:
            jobs.append(dict(kind='notnot', shape=[2] if tier == 'quick' else [3], k=1, reps='m'))
        jobs.append(dict(kind='demorgan', shape=[2], k=k, reps='m'))
        jobs.append(dict(kind='order', shape=[2], k=k, reps='m'))
        jobs.append(dict(kind='sel1', shape=shape, k=k, reps='m'))
        jobs.append(dict(kind='selall', shape=shape, k=k, reps='m'))
    return jobs


def inputs(ctx, cfg, prefix='x'):
    shape = tuple(cfg['shape'])
    reps = cfg.get('reps', 'm')
    kinds = cfg.get('kinds', 'f')
    hs = []
    for j in range(cfg['k']):
        rep = D.REPS[reps[j] if j < len(reps) else reps[-1]]
        hs.append(D.sym_array(ctx, '%s%d' % (prefix, j), shape, kinds[j] if j < len(kinds) else kinds[-1], rep, fuzzy=True))
    return hs


def op_kwargs(ctx, name, hs, cfg, weights=None):
    kw = {}
    if name == 'FuzzyNot':
        kw['InFieldName'] = hs[0]
        return kw
    kw['InFieldNames'] = list(hs)
    if name == 'FuzzyWeightedUnion':
        kw['Weights'] = weights if weights is not None else [D.sym_num(ctx, 'w%d' % j, cfg.get('numkind', 'f')) for j in range(len(hs))]
    if name == 'FuzzySelectedUnion':
        kw['TruestOrFalsest'] = cfg.get('str', {}).get('TruestOrFalsest', 'Truest')
        kw['NumberToConsider'] = cfg.get('sel', 1)
    return kw


def result_holder(run, name):
    return D.Holder(name, run.result, fuzzy=True)


def scenario(ctx, cfg):
    specs = D.command_specs_cached()
    kind = cfg['kind']
    if kind == 'missing':
        raise RuntimeError('operator %s is not defined by the fuzzy library' % cfg['cmd'])
    if kind == 'def':
        sp = specs[cfg['cmd']]
        hs = inputs(ctx, cfg)
        kw = op_kwargs(ctx, sp.name, hs, cfg)
        if 'Weights' in kw:
            ctx.assume(z3.Sum(*[w.e for w in kw['Weights']]) != 0 if len(kw['Weights']) > 1 else kw['Weights'][0].e != 0)
        snap = D.snapshot_inputs(kw)
        r = D.run_cmd(ctx, sp.name, kw)
        obs = [D.fact_ob('operator returns a result', ('ok', 0), group='outcome')]
        o2, ref = D.oracle_obligations(sp, kw, snap, r, want=('mask', 'value', 'shape'), in_shape=cfg['shape'])
        return obs + o2
    if kind == 'perm':
        sp = specs[cfg['cmd']]
        hs = inputs(ctx, cfg)
        kw = op_kwargs(ctx, sp.name, hs, cfg)
        t = cfg['t']
        hs2 = list(hs)
        hs2[t], hs2[t + 1] = hs2[t + 1], hs2[t]
        w2 = None
        if 'Weights' in kw:
            w2 = list(kw['Weights'])
            w2[t], w2[t + 1] = w2[t + 1], w2[t]
        kw2 = op_kwargs(ctx, sp.name, hs2, cfg, weights=w2)
        r0 = D.run_cmd(ctx, sp.name, kw)
        r1 = D.run_cmd(ctx, sp.name, kw2)
        obs = [D.fact_ob('same outcome for both input orders', ('same_outcome', 0, 1), group='perm-outcome')]
        return obs + D.equal_results_obs(r0, r1, 'inputs %d,%d swapped' % (t, t + 1), 'perm')
    if kind == 'notnot':
        hs = inputs(ctx, cfg)
        r0 = D.run_cmd(ctx, 'FuzzyNot', {'InFieldName': hs[0]})
        if r0.outcome != 'ok':
            return [D.fact_ob('FuzzyNot returns a result', ('ok', 0), group='outcome')]
        r1 = D.run_cmd(ctx, 'FuzzyNot', {'InFieldName': result_holder(r0, 'n0')})
        obs = [D.fact_ob('FuzzyNot returns a result', ('ok', 1), group='outcome')]
        if r1.outcome == 'ok':
            d, m, _ = D.arr_cells(hs[0].arr)
            m = m if m is not None else [z3.BoolVal(False)] * len(d)
            for i in range(len(d)):
                obs.append(D.term_ob('Not(Not(x)) cell %d missing alike' % i, r1.pm[i] == m[i], group='involution-mask'))
                obs.append(D.term_ob('Not(Not(x)) cell %d == x' % i, z3.Or(m[i], r1.pd[i] == d[i]), group='involution-value'))
        return obs
    if kind == 'demorgan':
        hs = inputs(ctx, cfg)
        r_or = D.run_cmd(ctx, 'FuzzyOr', {'InFieldNames': list(hs)})
        if r_or.outcome != 'ok':
            return [D.fact_ob('FuzzyOr returns a result', ('ok', 0), group='outcome')]
        r_nor = D.run_cmd(ctx, 'FuzzyNot', {'InFieldName': result_holder(r_or, 'or')})
        nots = []
        for j, h in enumerate(hs):
            rn = D.run_cmd(ctx, 'FuzzyNot', {'InFieldName': h})
            if rn.outcome != 'ok':
                return [D.fact_ob('FuzzyNot returns a result', ('ok', rn.idx), group='outcome')]
            nots.append(result_holder(rn, 'not%d' % j))
        r_and = D.run_cmd(ctx, 'FuzzyAnd', {'InFieldNames': nots})
        obs = [D.fact_ob('same outcome', ('same_outcome', r_nor.idx, r_and.idx), group='demorgan-outcome')]
        return obs + D.equal_results_obs(r_nor, r_and, 'Not(Or xs) vs And(Not xs)', 'demorgan')
    if kind == 'order':
        hs = inputs(ctx, cfg)
        ra = D.run_cmd(ctx, 'FuzzyAnd', {'InFieldNames': list(hs)})
        ru = D.run_cmd(ctx, 'FuzzyUnion', {'InFieldNames': list(hs)})
        ro = D.run_cmd(ctx, 'FuzzyOr', {'InFieldNames': list(hs)})
        obs = [D.fact_ob('operators return results', ('ok', j), group='outcome') for j in range(3)]
        if ra.outcome == ru.outcome == ro.outcome == 'ok' and len(ra.pd) == len(ru.pd) == len(ro.pd):
            for i in range(len(ra.pd)):
                obs.append(D.term_ob('cell %d: And <= Union <= Or' % i,
                                     z3.Or(ra.pm[i], ru.pm[i], ro.pm[i], z3.And(ra.pd[i] <= ru.pd[i], ru.pd[i] <= ro.pd[i])), group='order'))
        return obs
    if kind in ('sel1', 'selall'):
        hs = inputs(ctx, cfg)
        k = cfg['k']
        obs = []
        pairs = [('Truest', 1, 'FuzzyOr'), ('Falsest', 1, 'FuzzyAnd')] if kind == 'sel1' else [('Truest', k, 'FuzzyUnion'), ('Falsest', k, 'FuzzyUnion')]
        for which, sel, other in pairs:
            rs = D.run_cmd(ctx, 'FuzzySelectedUnion', {'InFieldNames': list(hs), 'TruestOrFalsest': which, 'NumberToConsider': sel})
            rb = D.run_cmd(ctx, other, {'InFieldNames': list(hs)})
            obs.append(D.fact_ob('same outcome', ('same_outcome', rs.idx, rb.idx), group='selected-outcome'))
            obs += D.equal_results_obs(rs, rb, 'SelectedUnion(%s,%d) vs %s' % (which, sel, other), 'selected-vs-' + other)
        return obs
    raise ValueError(kind)


def run_job(cfg, seed):
    return D.run_scenario_job(scenario, cfg, PROP, seed, max_paths=cfg.get('max_paths', 20000))


def replay(rec):
    return D.replay_record(rec)


def describe(tier):
    return {
        'level': 'model_checking',
        'functions': ['mpilot/libraries/eems/fuzzy.py: execute() of ' + ', '.join(OPS), 'mpilot/utils.py: insure_fuzzy, make_masked',
                      'mpilot/libraries/eems/mixins.py: validate_array_shapes'],
        'bounds': {
            'quick': '1-3 inputs (XOr 2-3), 2 cells (SelectedUnion with 3 inputs: 1 cell), every NumberToConsider 1..k and Truest/Falsest, symbolic weights with non-zero sum, all mask placements; laws: every adjacent transposition of the input list, Not involution, De Morgan, And<=Union<=Or, SelectedUnion k=1 / k=all',
            'thorough': '1-5 inputs (sorting operators: 1 cell for >=4 inputs), up to 3 cells for <=2 inputs, masked / nomask / plain inputs',
        },
        'outside': ['IEEE-754 rounding (the model is exact real arithmetic)', 'FuzzyXOr with fewer than two inputs', 'weights summing to zero',
                    'rank >= 2 shapes (C05)'],
        'assumptions': D.STUBS + ['A-pre: fuzzy inputs lie in [-1,1] at non-missing cells',
                                  'reference = mpv/oracle.py (max, min, -x, mean, weighted mean, mean of k extreme, EEMS XOr formula, each clamped)'],
    }
