"""C10 -- parsing delivers exactly what was written, regardless of layout.

L1  lexical lemmas (z3 regular expressions over the LIVE master regex of the PLY lexer): every lexeme class of the
    reference renderer yields exactly one token of the expected type spanning exactly the lexeme; comments and blanks
    yield none; unquoted text must come back as written.
L3  grammar: abstract programs chosen by the solver are rendered to token streams whose VALUES are symbolic
    (z3 strings / numbers); the real LRParser with the real grammar actions runs on a stub lexer; the tree must equal
    the generating abstract program (term equality).  Every single-token deletion / duplication / substitution of the
    stream is run too: accepted iff a reference recogniser accepts, rejected only with SyntaxError.
LC  composition: the witness texts of the lemmas and concrete renderings run through the real Parser().parse."""
import sys
import collections

import z3

from .. import progx as P
from .. import symx
from .. import lexenc
from ..symx import SymNum, SymStr

PROP = 'C10'
TOK = ['COLON', 'COMMA', 'EQUAL', 'FLOAT', 'ID', 'INT', 'LBRACK', 'LPAREN', 'PLAIN_STRING', 'RBRACK', 'RPAREN', 'STRING']


def boot(scratch):
    P.boot(scratch)
    from numbers import Number
    Number.register(SymNum)
    import mpilot.parser.parser as pp
    pp.str = symstr
    symx.FORMAT_OK = True      # the only str.format calls in the parser build error messages


_RENDER = z3.Function('printed', z3.RealSort(), z3.StringSort())


def symstr(x=''):
    """stand-in for str() in the grammar actions: numbers re-printed inside unquoted text become an uninterpreted
    function of the number (what the printed form looks like is lemma L2's subject)"""
    if isinstance(x, SymNum):
        return SymStr(_RENDER(x.e))
    if isinstance(x, SymStr):
        return x
    return str(x)


# ------------------------------------------------------------------ L1: lexical lemmas
DELIM_AFTER_VALUE = ' \t,)]#\r\n'
LEXEMES = collections.OrderedDict([
    # name: (python regex of the lexeme, characters that may follow it, expected rule, what it must yield)
    ('identifier', (r'[A-Za-z_][A-Za-z_0-9]*', ' \t=(),[]:#\r\n', 't_ID')),
    ('integer', (r'[-+]?[0-9]+', DELIM_AFTER_VALUE, 't_INT')),
    ('decimal', (r'[-+]?([0-9]+\.[0-9]*|\.[0-9]+)', DELIM_AFTER_VALUE, 't_FLOAT')),
    ('decimal-exponent', (r'[-+]?([0-9]+\.[0-9]*|\.[0-9]+)[eE][-+]?[0-9]+', DELIM_AFTER_VALUE, 't_FLOAT')),
    ('integer-exponent', (r'[-+]?[0-9]+[eE][-+]?[0-9]+', DELIM_AFTER_VALUE, 't_FLOAT')),
    ('double-quoted', (r'"[^"\\\r\n]*"', DELIM_AFTER_VALUE + ':', 't_STRING')),
    ('single-quoted', (r"'[^'\\\r\n]*'", DELIM_AFTER_VALUE + ':', 't_STRING')),
    ('quoted-with-escapes', (r'"([^"\\\r\n]|\\["\\nt\'])*"', DELIM_AFTER_VALUE, 't_STRING')),
    # characters outside ASCII (Latin-1 and beyond) together with an escape sequence, in either order
    ('quoted-nonascii-then-escape', (r'"[^"\\\r\n]*[\u00a1-\u024f][^"\\\r\n]*\\["\\nt\'][^"\\\r\n]*"', DELIM_AFTER_VALUE, 't_STRING')),
    ('quoted-escape-then-nonascii', (r"'[^'\\\r\n]*\\['\\nt\"][^'\\\r\n]*[\u00a1-\u024f][^'\\\r\n]*'", DELIM_AFTER_VALUE, 't_STRING')),
    ('comment', (r'#[^\r\n]*', '\r\n', 't_ignore_COMMENT')),
    ('line-break', (r'[\r\n]+', 'A"(#', 't_newline')),
    ('colon', (r':', ' a"1[', 't_COLON')), ('comma', (r',', ' a"1[\n)', 't_COMMA')), ('equal', (r'=', ' a"1[', 't_EQUAL')),
    ('lbrack', (r'\[', ' a"1[]', 't_LBRACK')), ('rbrack', (r'\]', ' ,)\n]', 't_RBRACK')), ('lparen', (r'\(', ' a\n)', 't_LPAREN')), ('rparen', (r'\)', ' \nA#', 't_RPAREN')),
    # unquoted text that is one token: starts with a character that no other rule claims, no blanks inside
    ('unquoted-path', (r'([/%~\\][A-Za-z0-9_/.%~\\]*|\.[A-Za-z_/%~\\][A-Za-z0-9_/.%~\\]*)', ',)\r\n', 't_PLAIN_STRING')),
])


def lemma_harness(ctx, cfg):
    live = lexenc.Live()
    name = cfg['lexeme']
    pat, follow, rule = LEXEMES[name]
    w, rest = z3.String('w'), z3.String('rest')
    ctx.inputs['w'] = w
    ctx.inputs['rest'] = rest
    ctx.assume(z3.InRe(w, lexenc.rx(pat)))
    ctx.assume(z3.Length(w) <= cfg['maxlen'])
    ctx.assume(z3.InRe(rest, z3.Option(z3.Concat(lexenc.charset(lambda c: c in follow), z3.Option(lexenc.ANY)))))
    obs, groups = [], {}
    if rule not in live.R:
        lab = 'the lexer has the rule %s' % rule
        return {'outcome': 'no-rule', 'obligations': [(lab, z3.BoolVal(False))], 'groups': {lab: 'lexeme ' + name}, 'replay': {'kind': 'lemma', 'lexeme': name}, 'validated': True}
    good = z3.And(live.first_match(rule, w, rest), z3.Not(live.longer(rule, w, rest)))
    lab = 'a %s lexeme followed by a delimiter is exactly one match of %s' % (name, rule)
    obs.append((lab, good))
    groups[lab] = 'lexeme ' + name

    # the token VALUE (decoding happens in C: encode/decode, int(), float()) is decided on solver-chosen members of the class:
    # up to WITNESSES distinct models of the class constraints are lexed by the real lexer and compared with the written content
    wl = 'the real lexer yields the written content for solver-chosen %s lexemes' % name
    failing = []
    ws = z3.Solver()
    ws.set('timeout', 20000)
    ws.add(z3.InRe(w, lexenc.rx(pat)), z3.Length(w) <= cfg['maxlen'], rest == z3.StringVal(follow[0]))
    for _ in range(cfg.get('witnesses', 4)):
        if str(ws.check()) != 'sat':
            break
        wm = ws.model()
        rec_w = {'kind': 'lemma', 'lexeme': name, 'w': symx.model_value(wm, w), 'rest': follow[0], 'rule': rule}
        bad, why = confirm(rec_w, wl)
        if bad:
            failing.append(rec_w)
            break
        ws.add(w != wm.eval(w, model_completion=True))
    obs.append((wl, z3.BoolVal(not failing)))
    groups[wl] = 'lexeme ' + name + ' value'

    def conc(m, label):
        if label == wl and failing:
            return failing[0]
        return {'kind': 'lemma', 'lexeme': name, 'w': symx.model_value(m, w), 'rest': symx.model_value(m, rest), 'rule': rule}

    def path_check(m):
        # non-vacuity / A-lex: a model of the class really lexes as claimed on the real lexer
        rec = conc(m, None)
        bad, why = confirm(rec, None)
        return (not bad), why
    return {'outcome': 'lemma', 'obligations': obs, 'groups': groups, 'concretise': conc, 'replay': {'kind': 'lemma', 'lexeme': name}, 'path_check': path_check}


def expected_token(rec, live):
    rule, w = rec['rule'], rec['w']
    tt = live.toktype.get(rule)
    if rule in ('t_ignore_COMMENT', 't_newline'):
        return None
    if rule == 't_INT':
        return (tt, int(w))
    if rule == 't_FLOAT':
        return (tt, float(w))
    if rule == 't_STRING':
        body = w[1:-1]
        out, i = [], 0
        while i < len(body):
            if body[i] == '\\' and i + 1 < len(body):
                out.append({'n': '\n', 't': '\t'}.get(body[i + 1], body[i + 1]))
                i += 2
            else:
                out.append(body[i])
                i += 1
        return (tt, ''.join(out))
    return (tt, w)


def unquoted_harness(ctx, cfg):
    """unquoted text of the user guide's class (no #:,=-+()[] quotes or line breaks, no leading/trailing blank) must
    come back as its text.  The solver splits it into the pieces the dispatch yields: p1 g1 p2 [g2 p3] with g_i the
    skipped blanks; it is violated as soon as some g_i is non-empty or a numeric piece does not re-print as written."""
    live = lexenc.Live()
    pp = sys.modules['mpilot.parser.parser']
    v = z3.String('v')
    cls = r'[A-Za-z0-9_/.%~!?;][A-Za-z0-9_/.%~!?; ]*[A-Za-z0-9_/.%~!?;]|[A-Za-z0-9_/.%~!?;]'
    base = [z3.InRe(v, lexenc.rx(cls)), z3.Length(v) <= cfg['maxlen'], z3.Not(z3.InRe(v, lexenc.rx(r'[-+]?([0-9]+\.?[0-9]*|\.[0-9]+)([eE][-+]?[0-9]+)?')))]
    kinds = {'inner-blank': [z3.Contains(v, z3.StringVal(' '))],
             'digit-leading': [z3.InRe(v, lexenc.rx(r'0[0-9]+[a-z][a-z0-9]*|[0-9]+\.[0-9]*0[a-z]+|\.[0-9]+[a-z]+'))],
             'plain': [z3.Not(z3.Contains(v, z3.StringVal(' '))), z3.InRe(v, lexenc.rx(r'[A-Za-z_/.%~!?;][A-Za-z_/.%~!?;0-9]*'))],
             'boolean-word': [z3.InRe(v, lexenc.rx(r'(True|False|true|false)[a-z]?'))],
             'number-ending': [z3.InRe(v, lexenc.rx(r'[A-Za-z_/.%~!?;]+ ?( [0-9]+| [0-9]*\.[0-9]+| 0[0-9]+)+'))],
             'number-inside': [z3.InRe(v, lexenc.rx(r'[A-Za-z_/.%~!?;]+ [0-9]+(\.[0-9]+)? [A-Za-z_/.%~!?;]+'))]}
    obs, groups, fails = [], {}, []
    ws, block = [], []
    for _ in range(cfg['n']):
        st, m = lexenc.solve(base + kinds[cfg['which']] + block, timeout=20000)
        if st != 'sat':
            break
        val = symx.model_value(m, v)
        ws.append(val)
        block.append(v != z3.StringVal(val))
    lab = 'the class unquoted/%s has witnesses' % cfg['which']
    obs.append((lab, z3.BoolVal(bool(ws))))
    groups[lab] = 'vacuous'
    for wv in ws:
        for tmpl in ('A = Cmd(P = %s)', 'A = Cmd(P = [%s, x])', 'A = Cmd(P = %s,\n Q = 1)'):
            text = tmpl % wv
            try:
                tree = pp.Parser().parse(text)
                val = tree.commands[0].arguments[0].value.value
                if isinstance(val, list):
                    val = val[0].value
                oc = val
            except SyntaxError as e:
                oc = 'SyntaxError'
            lab = 'unquoted text %r comes back as written (got %r)' % (wv, oc)
            ok = (oc == wv)
            obs.append((lab, z3.BoolVal(ok)))
            groups[lab] = 'unquoted-text ' + cfg['which']
            if not ok:
                fails.append({'text': text, 'got': oc})
    rec = {'kind': 'unquoted', 'which': cfg['which'], 'witnesses': ws, 'failures': fails[:5]}
    return {'outcome': '%d witnesses' % len(ws), 'obligations': obs, 'groups': groups, 'replay': rec, 'validated': True, 'concretise': lambda m, l: rec}


# ------------------------------------------------------------------ L3: abstract programs -> token streams -> real LRParser
class Tok(object):
    def __init__(self, type_, value, lineno, lexpos, lexeme=None, sep=' '):
        self.type, self.value, self.lineno, self.lexpos = type_, value, lineno, lexpos
        self.lexeme, self.sep = lexeme, sep         # how the stub source text spells this token


DEFAULT_LEXEME = {'COLON': ':', 'COMMA': ',', 'EQUAL': '=', 'LBRACK': '[', 'RBRACK': ']', 'LPAREN': '(', 'RPAREN': ')', 'INT': '41',
                  'FLOAT': '4.5', 'ID': 'sub', 'PLAIN_STRING': '/sub', 'STRING': '"sub"'}


def retext(toks):
    """(tokens with consistent positions, the source text they claim to come from) for an edited token list"""
    out, text = [], ''
    for t in toks:
        lx = t.lexeme if t.lexeme is not None else DEFAULT_LEXEME[t.type]
        out.append(Tok(t.type, t.value, t.lineno, len(text), lx, t.sep))
        text += lx + t.sep
    return out, text

    def __repr__(self):
        return 'Tok(%s)' % self.type


class StubLexer(object):
    def __init__(self, toks, lexdata=''):
        self.toks = list(toks)
        self.i = 0
        self.lineno = 1
        self.lexpos = 0
        self.lexdata = lexdata

    def input(self, s):
        self.i = 0

    def token(self):
        if self.i >= len(self.toks):
            return None
        t = self.toks[self.i]
        self.i += 1
        return t


class Gen(object):
    """builds an abstract program with solver-chosen structure and its token stream (symbolic values)"""

    def __init__(self, ctx, cfg):
        self.ctx, self.cfg = ctx, cfg
        self.toks = []
        self.n = 0
        self.text = ''          # the source text the stub lexer claims to be reading (lexpos values index into it)

    def emit(self, type_, value=None, lexeme=None, sep=' '):
        i = len(self.toks)
        ln = SymNum(self.ctx.real('line%d' % i, integer=True), 'i')
        punct = {'COLON': ':', 'COMMA': ',', 'EQUAL': '=', 'LBRACK': '[', 'RBRACK': ']', 'LPAREN': '(', 'RPAREN': ')'}
        if lexeme is None:
            lexeme = punct.get(type_, {'INT': '%d' % (40 + i), 'FLOAT': '%d.5' % i}.get(type_, '<%s%d>' % (type_.lower(), i)))
        self.toks.append(Tok(type_, value if value is not None else punct[type_], ln, len(self.text), lexeme, sep))
        self.text += lexeme + sep
        return ln

    def sym_str(self, tag):
        self.n += 1
        return SymStr(self.ctx.string('%s%d' % (tag, self.n)))

    def sym_num(self, tag, integer):
        self.n += 1
        return SymNum(self.ctx.real('%s%d' % (tag, self.n), integer=integer), 'i' if integer else 'f')

    def ident(self):
        v = self.sym_str('id')
        ln = self.emit('ID', v)
        return v, ln

    def value(self, depth, tag):
        """-> (abstract value, line term of its first token)"""
        kinds = ['int', 'float', 'string', 'word', 'text2', 'numtext', 'textnum']
        if depth == 0:
            kinds.append('colon-text')
        if depth < self.cfg['depth']:
            kinds += ['list', 'empty-list', 'tuple']
        k = kinds[self.ctx.choice('kind.%s' % tag, len(kinds))]
        if k == 'int':
            v = self.sym_num('int', True)
            return ('num', v), self.emit('INT', v)
        if k == 'float':
            v = self.sym_num('float', False)
            return ('num', v), self.emit('FLOAT', v)
        if k == 'string':
            v = self.sym_str('str')
            return ('str', v), self.emit('STRING', v)
        if k == 'word':
            v = self.sym_str('word')
            return ('str', v), self.emit(['ID', 'PLAIN_STRING'][self.ctx.choice('wordtok.%s' % tag, 2)], v)
        if k == 'text2':
            # unquoted text of two pieces: the leading piece counts as written in the source, blanks included
            sep = ['', ' ', '  '][self.ctx.choice('sep.%s' % tag, 3)]
            a, b = self.sym_str('pa'), self.sym_str('pb')
            ln = self.emit('PLAIN_STRING', a, lexeme='/lead', sep=sep)
            self.emit('ID', b)
            return ('str', '/lead' + sep + b), ln
        if k == 'numtext':
            sep = ['', ' '][self.ctx.choice('sep.%s' % tag, 2)]
            nv, b = self.sym_num('lead', True), self.sym_str('tail')
            ln = self.emit('INT', nv, lexeme='007', sep=sep)
            self.emit('ID', b)
            return ('str', '007' + sep + b), ln
        if k == 'textnum':
            # unquoted text ENDING in a number (`Layer 2`, `v 1.50`): text as written, the number keeps its spelling
            sep = ['', ' '][self.ctx.choice('sep.%s' % tag, 2)]
            a = self.sym_str('lead')
            num = self.ctx.choice('numtok.%s' % tag, 2)
            lead = ['ID', 'PLAIN_STRING'][self.ctx.choice('leadtok.%s' % tag, 2)]
            ln = self.emit(lead, a, lexeme='Layer', sep=sep)
            self.emit(['INT', 'FLOAT'][num], self.sym_num('tailnum', not num), lexeme=['002', '1.50'][num])
            return ('str', 'Layer' + sep + ['002', '1.50'][num]), ln
        if k == 'colon-text':
            sep = ['', ' '][self.ctx.choice('sep.%s' % tag, 2)]
            a, b = self.sym_str('ca'), self.sym_str('cb')
            ln = self.emit('ID', a, lexeme='C', sep=sep)
            self.emit('COLON', sep=sep)
            self.emit('PLAIN_STRING', b)
            return ('str', 'C' + sep + ':' + sep + b), ln
        if k == 'empty-list':
            ln = self.emit('LBRACK')
            self.emit('RBRACK')
            return ('list', []), ln
        if k == 'list':
            ln = self.emit('LBRACK')
            n = 1 + self.ctx.choice('len.%s' % tag, self.cfg['width'])
            items = []
            for i in range(n):
                if i:
                    self.emit('COMMA')
                items.append(self.value(depth + 1, '%s.%d' % (tag, i)))
            if self.ctx.choice('trail.%s' % tag, 2):
                self.emit('COMMA')
            self.emit('RBRACK')
            # a single unquoted element containing a colon is read as a one-pair tuple: the renderer avoids that shape
            return ('list', items), ln
        if k == 'tuple':
            ln = self.emit('LBRACK')
            n = 1 + self.ctx.choice('pairs.%s' % tag, self.cfg['width'])
            pairs = []
            for i in range(n):
                if i:
                    self.emit('COMMA')
                kq = self.ctx.choice('keyq.%s.%d' % (tag, i), 2)
                kv = self.sym_str('key')
                kl = self.emit('STRING' if kq else 'ID', kv)
                self.emit('COLON')
                vk = self.ctx.choice('valk.%s.%d' % (tag, i), 3)
                if vk == 0:
                    vv = self.sym_str('tv')
                    self.emit('STRING', vv)
                    val = ('str', vv)
                elif vk == 1:
                    vv = self.sym_str('tw')
                    self.emit('PLAIN_STRING', vv)
                    val = ('str', vv)
                else:
                    vv = self.sym_num('tn', True)
                    self.emit('INT', vv)
                    val = ('num', vv)
                pairs.append((kv, val, kl))
            if self.ctx.choice('trail.%s' % tag, 2):
                self.emit('COMMA')
            self.emit('RBRACK')
            return ('tuple', pairs), ln
        raise ValueError(k)

    def program(self):
        cmds = []
        ncmd = 1 + self.ctx.choice('ncmd', self.cfg['cmds'])
        for c in range(ncmd):
            v2 = self.ctx.choice('v2.%d' % c, 2) if self.cfg.get('v2') else 0
            rname = None
            if not v2:
                rname, _ = self.ident()
                self.emit('EQUAL')
            cname, cl = self.ident()
            self.emit('LPAREN')
            nargs = self.ctx.choice('nargs.%d' % c, self.cfg['args'] + 1)
            args = []
            for a in range(nargs):
                if a:
                    self.emit('COMMA')
                an, al = self.ident()
                self.emit('EQUAL')
                val, vl = self.value(0, '%d.%d' % (c, a))
                args.append((an, val, al, vl))
            if nargs and self.ctx.choice('trailarg.%d' % c, 2):
                self.emit('COMMA')
            self.emit('RPAREN')
            cmds.append((rname, cname, args, cl))
        return cmds


def same_str(a, b):
    if isinstance(a, str) and isinstance(b, str):
        return symx._sterm(a) == symx._sterm(b)
    return z3.BoolVal(False)


def compare_value(got, want, obs, where):
    """got: ExpressionNode value from the real tree; want: abstract value"""
    kind, w = want[0], want[1]
    if kind == 'num':
        ok = isinstance(got, SymNum)
        obs.append(('%s is a number of the written kind' % where, z3.BoolVal(ok and got.kind == w.kind)))
        if ok:
            obs.append(('%s has the written numeric value' % where, got.e == w.e))
    elif kind == 'str':
        obs.append(('%s is the written text' % where, same_str(got, w)))
    elif kind == 'list':
        ok = isinstance(got, list) and len(got) == len(w)
        obs.append(('%s is a list of the written length' % where, z3.BoolVal(ok)))
        if ok:
            for i, (g, (wv, wl)) in enumerate(zip(got, w)):
                compare_value(g.value, wv, obs, '%s[%d]' % (where, i))
                obs.append(('%s[%d] carries the line of its first token' % (where, i), symx.lift(g.lineno) == wl.e))
    elif kind == 'tuple':
        ok = isinstance(got, dict) and len(got) == len(w)
        obs.append(('%s is a key-value map with the written number of pairs' % where, z3.BoolVal(ok)))
        if ok:
            for (gk, gv), (wk, wv, wl) in zip(got.items(), w):
                obs.append(('%s key is the written key (order kept)' % where, same_str(gk, wk)))
                compare_value(gv.value, wv, obs, '%s{value}' % where)


def run_parser(toks, lexdata=''):
    pp = sys.modules['mpilot.parser.parser']
    parser = pp.Parser()
    try:
        return 'ok', parser.parser.parse('x', lexer=StubLexer(toks, lexdata), tracking=True)
    except SyntaxError:
        return 'SyntaxError', None
    except (symx.Abort, symx.Outside, symx.Inconclusive):
        raise
    except Exception as e:      # noqa: B902
        return 'escaped:' + type(e).__name__, None


def tree_harness(ctx, cfg):
    g = Gen(ctx, cfg)
    cmds = g.program()
    # keys of one tuple are distinct texts (a map cannot hold a key twice)
    def distinct_keys(val):
        if val[0] == 'tuple':
            ks = [k.e for k, _, _ in val[1]]
            if len(ks) > 1:
                ctx.assume(z3.Distinct(*ks))
        elif val[0] == 'list':
            for v, _ in val[1]:
                distinct_keys(v)
    for _, _, args, _ in cmds:
        for _, val, _, _ in args:
            distinct_keys(val)
    oc, tree = run_parser(g.toks, g.text)
    types = [t.type for t in g.toks]
    obs = [('the rendered token stream is accepted (%s)' % oc, z3.BoolVal(oc == 'ok'))]
    groups = {}
    if oc == 'ok':
        anyv2 = any(c[0] is None for c in cmds)
        obs.append(('the version is 2 iff a command without a result name occurs', z3.BoolVal(tree.version == (2 if anyv2 else 3))))
        ok = len(tree.commands) == len(cmds)
        obs.append(('all commands are returned, in order', z3.BoolVal(ok)))
        if ok:
            for ci, (node, (rname, cname, args, cl)) in enumerate(zip(tree.commands, cmds)):
                if rname is None:
                    obs.append(('command %d has no result name' % ci, z3.BoolVal(node.result_name is None)))
                else:
                    obs.append(('command %d result name' % ci, same_str(node.result_name, rname)))
                obs.append(('command %d name' % ci, same_str(node.command, cname)))
                obs.append(('command %d line is the line of its name token' % ci, symx.lift(node.lineno) == cl.e))
                okargs = len(node.arguments) == len(args)
                obs.append(('command %d has the written arguments' % ci, z3.BoolVal(okargs)))
                if okargs:
                    for ai, (an_, (an, val, al, vl)) in enumerate(zip(node.arguments, args)):
                        obs.append(('argument %d.%d name' % (ci, ai), same_str(an_.name, an)))
                        obs.append(('argument %d.%d line' % (ci, ai), symx.lift(an_.lineno) == al.e))
                        compare_value(an_.value.value, val, obs, 'argument %d.%d value' % (ci, ai))
    for l, _ in obs:
        groups[l] = 'tree ' + ''.join(ch for ch in l.split(' has ')[0] if not ch.isdigit())[:40]
    rec = {'kind': 'tree', 'tokens': types}
    out = {'outcome': oc, 'obligations': obs, 'groups': groups, 'replay': rec, 'validated': True}
    # ---- single-token corruptions of this stream
    if cfg.get('corrupt') and oc == 'ok':
        extra = []
        n = len(g.toks)
        budget = cfg.get('corrupt_budget', 40)
        muts = []
        for i in range(n):
            muts.append(('delete', i, None))
            muts.append(('duplicate', i, None))
            for tt in ('COMMA', 'ID', 'RBRACK', 'EQUAL', 'INT', 'COLON'):
                if tt != g.toks[i].type:
                    muts.append(('substitute', i, tt))
        step = max(1, len(muts) // budget)
        for mi, (how, i, tt) in enumerate(muts):
            if mi % step:
                continue
            toks = list(g.toks)
            if how == 'delete':
                del toks[i]
            elif how == 'duplicate':
                toks.insert(i, g.toks[i])
            else:
                val = g.toks[i].value if isinstance(g.toks[i].value, (SymStr, SymNum)) else None
                if tt in ('ID',):
                    val = val if isinstance(val, SymStr) else SymStr(ctx.string('sub%d' % mi))
                elif tt == 'INT':
                    val = val if isinstance(val, SymNum) else SymNum(ctx.real('subn%d' % mi, integer=True), 'i')
                else:
                    val = None
                toks[i] = Tok(tt, val if val is not None else {'COLON': ':', 'COMMA': ',', 'EQUAL': '=', 'RBRACK': ']'}[tt], g.toks[i].lineno, 0)
            seq = [t.type for t in toks]
            want = recognise(seq)
            toks, text2 = retext(toks)
            oc2, _ = run_parser(toks, text2)
            lab = 'corruption %s@%d%s of %s: %s' % (how, i, '->' + tt if tt else '', ' '.join(types)[:60], oc2)
            if oc2.startswith('escaped'):
                extra.append((lab + ' (only SyntaxError may be raised)', z3.BoolVal(False), 'corruption-escaped'))
            elif want is None:
                continue
            else:
                extra.append((lab + (' (reference: %s)' % ('well-formed' if want else 'malformed')), z3.BoolVal((oc2 == 'ok') == want),
                              'corruption-accepted-malformed' if not want else 'corruption-rejected-wellformed'))
        for l, t, gname in extra:
            obs.append((l, t))
            groups[l] = gname
    return out


# ------------------------------------------------------------------ reference recogniser over token types (DESIGN.md Appendix D)
def recognise(seq):
    """True / False; None where the written grammar is ambiguous (bracketed unquoted text with colons mixed with
    plain elements) and the user guide does not settle the reading"""
    toks = list(seq) + ['$']
    pos = [0]
    amb = [False]

    def peek(k=0):
        return toks[pos[0] + k]

    def eat(t):
        if peek() == t:
            pos[0] += 1
            return True
        return False

    PIECES = ('INT', 'FLOAT', 'PLAIN_STRING', 'ID')

    def plain():
        """a run of pieces -> (number of pieces, does it contain a word piece)"""
        n = 0
        word = False
        while peek() in PIECES:
            word = word or peek() in ('PLAIN_STRING', 'ID')
            pos[0] += 1
            n += 1
        return n, word

    def text_or_number():
        """number | permissive plain string; -> 'num' / 'text' / None.  Per the user guide unquoted text is any run of
        characters other than  # : , = - + ( ) [ ]  -- so a run of pieces containing at least one word piece is text
        wherever the numbers stand (`Layer 2`, `007 abc`, `a 1 b`); a single number is a number; a run of two or more
        numbers and nothing else is neither (the guide does not say: left unjudged)"""
        n, word = plain()
        if n == 0:
            return None
        if not word:
            if n == 1:
                return 'num'
            amb[0] = True
            return None
        kind = 'text'
        while peek() == 'COLON':
            save = pos[0]
            pos[0] += 1
            n2, word2 = plain()
            if n2 == 0 or not word2:
                pos[0] = save
                break
            kind = 'colon-text'
        return kind

    def expression():
        if eat('STRING'):
            return 'string'
        if peek() == 'LBRACK':
            return 'list' if lst() else None
        return text_or_number()

    def lst():
        if not eat('LBRACK'):
            return False
        if eat('RBRACK'):
            return True
        # tuple or list?
        kinds = []
        while True:
            start = pos[0]
            k = expression()
            if k is None:
                return False
            pair = False
            if k in ('string', 'text') and peek() == 'COLON':
                pos[0] += 1
                if eat('STRING'):
                    pair = True
                else:
                    v = text_or_number()
                    if v is None:
                        return False
                    pair = True
            kinds.append('pair' if pair else k)
            if eat('COMMA'):
                if peek() == 'RBRACK':
                    break
                continue
            break
        if not eat('RBRACK'):
            return False
        if any(k == 'colon-text' for k in kinds) or (('pair' in kinds) and any(k != 'pair' for k in kinds)):
            amb[0] = True
        return True

    def command():
        if not eat('ID'):
            return False
        if eat('EQUAL'):
            if not eat('ID'):
                return False
        if not eat('LPAREN'):
            return False
        if eat('RPAREN'):
            return True
        while True:
            if not (eat('ID') and eat('EQUAL')):
                return False
            if expression() is None:
                return False
            if eat('COMMA'):
                if peek() == 'RPAREN':
                    break
                continue
            break
        return eat('RPAREN')

    n = 0
    while peek() != '$':
        if not command():
            return None if amb[0] else False
        n += 1
    if amb[0]:
        return None
    return n >= 1


def recogniser_selftest():
    good = ['ID EQUAL ID LPAREN RPAREN', 'ID LPAREN ID EQUAL INT RPAREN', 'ID EQUAL ID LPAREN ID EQUAL LBRACK INT COMMA FLOAT COMMA RBRACK COMMA RPAREN',
            'ID EQUAL ID LPAREN ID EQUAL INT ID COLON PLAIN_STRING RPAREN', 'ID EQUAL ID LPAREN ID EQUAL LBRACK STRING COLON INT COMMA ID COLON STRING RBRACK RPAREN']
    good += ['ID EQUAL ID LPAREN ID EQUAL ID INT RPAREN', 'ID EQUAL ID LPAREN ID EQUAL PLAIN_STRING FLOAT INT COMMA RPAREN',
             'ID EQUAL ID LPAREN ID EQUAL LBRACK STRING COLON ID INT RBRACK RPAREN']
    bad = ['ID EQUAL ID LPAREN', 'ID EQUAL LPAREN RPAREN', 'ID EQUAL ID LPAREN ID EQUAL RPAREN', 'ID EQUAL ID LPAREN COMMA RPAREN', '']
    unjudged = ['ID EQUAL ID LPAREN ID EQUAL INT INT RPAREN']
    return all(recognise(s.split()) is True for s in good) and all(recognise(s.split()) is False for s in bad) \
        and all(recognise(s.split()) is None for s in unjudged)


# ------------------------------------------------------------------ LC: concrete renderings through the real Parser
def render_harness(ctx, cfg):
    pp = sys.modules['mpilot.parser.parser']
    C, A, E = pp.CommandNode, pp.ArgumentNode, pp.ExpressionNode
    sp = [' ', '', '\t', '  '][ctx.choice('sp', 4)]
    nl = ['\n', '\r\n', '\n\n', '\n# c\n'][ctx.choice('nl', 4)]
    q = ['"', "'"][ctx.choice('q', 2)]
    trail = [',', ''][ctx.choice('trail', 2)]
    text = ('R1%s=%sCmd(%sP%s=%s%sa b%s%s,%sQ%s=%s[1,%s2.5%s,%s-3e2%s]%s,%sM%s=%s[%sk1%s:%s%sv,1%s%s,%sk2:%s7%s]%s%s)' + nl + 'R2 = Other(X = /p/q.txt, Y = R1, Z = [[1], [], [a, %sb c%s]])%s# end') % (
        sp, sp, nl, sp, sp, q, q, sp, nl, sp, sp, sp, sp, sp, trail, sp, nl, sp, sp, q, q, sp, q, q, sp, sp, sp, trail, trail, nl, q, q, sp)
    try:
        tree = pp.Parser().parse(text)
        got = tree.commands
        oc = 'ok'
    except SyntaxError as e:
        got, oc = None, 'SyntaxError: %s' % e
    l2 = 1 + text[:text.index('R2')].count('\n') + text[:text.index('R2')].count('\r') - text[:text.index('R2')].count('\r\n')

    def strip(nodes):
        return [(c.result_name, c.command, [(a.name, unwrap(a.value.value)) for a in c.arguments]) for c in nodes]

    def unwrap(v):
        if isinstance(v, list):
            return [unwrap(x.value) for x in v]
        if isinstance(v, dict):
            return [(k, unwrap(x.value)) for k, x in v.items()]
        return v
    want = [('R1', 'Cmd', [('P', 'a b'), ('Q', [1, 2.5, -300.0]), ('M', [('k1', 'v,1'), ('k2', 7)])]),
            ('R2', 'Other', [('X', '/p/q.txt'), ('Y', 'R1'), ('Z', [[1], [], ['a', 'b c']])])]
    obs = [('a program rendered with spacing %r, line breaks %r, quote %r, trailing comma %r parses to the written commands (%s)' % (sp, nl, q, trail, oc if oc != 'ok' else strip(got) == want),
            z3.BoolVal(oc == 'ok' and strip(got) == want))]
    if oc == 'ok' and len(got) == 2:
        obs.append(('the second command is on line %d' % l2, z3.BoolVal(got[1].lineno == l2)))
    groups = {l: 'layout-independence' for l, _ in obs}
    return {'outcome': oc[:12], 'obligations': obs, 'groups': groups, 'replay': {'kind': 'render', 'text': text}, 'validated': True}


def harness(ctx, cfg):
    symx.PINS.clear()
    symx.PINS.update(cfg.get('pin') or {})
    return {'lemma': lemma_harness, 'unquoted': unquoted_harness, 'tree': tree_harness, 'render': render_harness}[cfg['kind']](ctx, cfg)


def plan(tier, seed):
    jobs = [dict(kind='lemma', lexeme=n, maxlen=6 if tier == 'quick' else 8) for n in LEXEMES]
    jobs += [dict(kind='unquoted', which=w, n=4 if tier == 'quick' else 8, maxlen=8) for w in ('plain', 'inner-blank', 'digit-leading', 'boolean-word', 'number-ending', 'number-inside')]
    jobs.append(dict(kind='render'))
    if tier == 'quick':
        jobs.append(dict(kind='tree', cmds=1, args=1, depth=1, width=2, v2=True, corrupt=False, max_paths=30000))
        jobs.append(dict(kind='tree', cmds=1, args=2, depth=0, width=1, v2=False, corrupt=False, max_paths=30000))
        jobs.append(dict(kind='tree', cmds=2, args=1, depth=0, width=1, v2=True, corrupt=True, corrupt_budget=24, max_paths=30000))
    else:
        # the enumeration of one configuration is spread over worker processes by PINNING its first choices (one job per
        # value of the pinned choice; together the jobs cover the configuration exhaustively)
        for k0 in range(11):        # 8 scalar kinds + list, empty list, tuple
            jobs.append(dict(kind='tree', cmds=1, args=2, depth=1, width=1, v2=True, corrupt=False, max_paths=400000, pin={'nargs.0': 2, 'kind.0.0': k0}))
        jobs.append(dict(kind='tree', cmds=1, args=1, depth=2, width=1, v2=True, corrupt=False, max_paths=400000))
        jobs.append(dict(kind='tree', cmds=1, args=1, depth=1, width=2, v2=True, corrupt=False, max_paths=400000))
        for k0 in range(8):
            jobs.append(dict(kind='tree', cmds=2, args=1, depth=0, width=1, v2=True, corrupt=True, corrupt_budget=40, max_paths=400000, pin={'ncmd': 1, 'nargs.0': 1, 'kind.0.0': k0}))
        for k0 in range(8):
            for k1 in range(8):
                jobs.append(dict(kind='tree', cmds=3, args=1, depth=0, width=1, v2=True, corrupt=False, max_paths=400000,
                                 pin={'ncmd': 2, 'nargs.0': 1, 'nargs.1': 1, 'kind.0.0': k0, 'kind.1.0': k1}))
    return jobs


def confirm(rec, label):
    k = rec.get('kind')
    if k == 'lemma':
        live = lexenc.Live()
        text = rec['w'] + rec['rest']
        try:
            toks, _ = live.scan(text)
        except SyntaxError as e:
            return True, 'real lexer on %r: SyntaxError %s' % (text, e)
        want = expected_token(rec, live)
        e = live.greedy_end(rec['rule'], text)
        if want is None:
            bad = e != len(rec['w']) or (toks and toks[0][3] < len(rec['w']))
            return bad, 'real lexer on %r: %s; the %s match ends at %s' % (text, toks[:2], rec['rule'], e)
        bad = not toks or (toks[0][0], toks[0][1]) != want or e != len(rec['w'])
        return bad, 'real lexer on %r: first token %s, expected %s; match ends at %s' % (text, toks[:1], want, e)
    if k == 'unquoted':
        return bool(rec['failures']), 'real parser: %s' % rec['failures'][:3]
    return True, 'the explored path executed the real parser'


def run_job(cfg, seed):
    if cfg['kind'] == 'tree' and not recogniser_selftest():
        raise RuntimeError('reference recogniser self-test failed')
    return P.run_struct_job(harness, cfg, PROP, seed, confirm=confirm, max_paths=cfg.get('max_paths', 20000))


def replay(rec):
    ok, why = confirm(rec['record'], rec.get('label'))
    return {'reproduced': ok, 'why': why}


def describe(tier):
    return {
        'level': 'model_checking',
        'functions': ['mpilot/parser/parser.py: Lexer token rules (live master regex, rule order, ignore set) and token actions; Parser grammar actions p_* executed by the real ply.yacc LRParser on the live LALR tables'],
        'bounds': {'quick': 'L1: 20 lexeme classes (token value decided on <= 4 distinct solver-chosen members per class), lexemes <= 6 characters + 1-2 following characters, alphabet = printable ASCII, TAB, CR, LF, e-acute, one CJK character; unquoted text: 4 classes x 4 witnesses x 3 contexts; '
                            'L3: every abstract program with 1 command x <=2 arguments x 10 value kinds (numbers, strings, unquoted words, multi-piece and colon text, digit-leading text, lists / tuples of width <= 2 nested once) incl. EEMS-2 commands and trailing commas, all token values and line numbers symbolic; '
                            '2 commands x 1 argument with ~30 single-token corruptions each against the reference recogniser; LC: 128 concrete renderings (spacing, line breaks, comments, quote kind, trailing commas)',
                   'thorough': 'lexemes <= 8 chars; 1 command x 2 arguments with lists/tuples of depth 1 (11 pinned slices), nesting depth 2 (width 1), width 2 (depth 1), 2 commands with 40 single-token corruptions per stream (8 slices), 3 commands x 1 scalar argument (64 slices)'},
        'outside': ['escape sequences other than \\\\" \\\\\\\\ \\\\n \\\\t \\\\\' inside quoted strings', 'token streams longer than the bound', 'bracketed unquoted text with colons mixed with plain elements (ambiguous in the written grammar: not asserted)',
                    'the printed form of numbers inside unquoted text is an uninterpreted function in L3 (its faithfulness is the unquoted/digit-leading lemma)'],
        'assumptions': ['A-lex: greedy = longest for the token rules (every lemma model is replayed on the real lexer: traces_validated)', 'S-parser: in L3 the lexer is a stub that delivers the generated token stream; L1 justifies it',
                        'reference grammar = DESIGN.md Appendix D'],
    }
