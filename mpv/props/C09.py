"""C09 -- computed results are immutable: commands never modify their inputs.

One inductive step: an arbitrary finished producer state (every representation a command can hand on) is
snapshot, ONE consumer command runs through the real Command.run, and the producer state afterwards must be
the snapshot (type, shape, element type, missing cells, non-missing values).  Any sequence of consumers
follows by induction because the post-state is again a producer state of the same family."""
import json

import z3

from .. import datacmd as D

PROP = 'C09'


def boot(scratch):
    D.boot(scratch)


def plan(tier, seed):
    jobs = []
    for sp in D.command_specs_cached().values():
        nary = any(p.kind == 'arrlist' for p in sp.params)
        narr = sum(1 for p in sp.params if p.kind == 'arr')
        has_sel = any(p.name == 'NumberToConsider' for p in sp.params)
        heavy = 'CurveZScore' in sp.name
        stat = sp.name in D.STAT_CMDS or sp.name == 'CvtToFuzzy'
        variants = D.default_variants(sp, 'quick')
        if tier == 'quick':
            variants = [v for v in variants if not v.get('omit')] or variants[:1]
        for var in variants:
            ks = [1, 2, 3] if nary else [1]
            if tier == 'thorough' and nary:
                ks.append(4)
            for k in ks:
                n = 3 if (stat and not heavy) else 2
                if nary and k >= 3 and sp.name in ('FuzzyXOr', 'FuzzySelectedUnion'):
                    n = 1
                repsets = ['m', 'n', 'd'] if tier == 'quick' else ['m', 'n', 'd', 'mn', 'dm']
                if heavy:
                    repsets = ['m', 'n']
                kindsets = ['f'] if tier == 'quick' else ['f', 'i']
                if nary and k >= 2 and tier == 'thorough':
                    kindsets = ['f', 'i', 'if', 'fi']
                for reps in repsets:
                    if len(reps) > 1 and not (nary and k >= 2) and narr < 2:
                        continue
                    ksets = list(kindsets)
                    if reps == 'm' and not heavy:
                        # integer and unsigned producers (NetCDF "Integer" / "Positive Integer"), alone and mixed
                        two = (nary and k == 2) or narr >= 2
                        ksets += (['iu', 'ui', 'uu', 'uf'] if two else (['u', 'i'] if k == 1 else []))
                    for kinds in dict.fromkeys(ksets):
                        sels = [1, k] if has_sel else [1]
                        for sel in sorted(set(sels)):
                            jobs.append(dict(var, kind='step', cmd=sp.name, shape=[n], k=k, reps=reps, kinds=kinds, pts=2, sel=sel))
            # the same producer listed twice / used for both operands
            if (nary or narr >= 2):
                jobs.append(dict(var, kind='twice', cmd=sp.name, shape=[2], k=2, reps='m', kinds='f', pts=2, sel=1))
                if tier == 'thorough':
                    jobs.append(dict(var, kind='twice', cmd=sp.name, shape=[2], k=2, reps='n', kinds='i', pts=2, sel=2 if has_sel else 1))
    seen, out = set(), []
    for j in jobs:
        key = json.dumps(j, sort_keys=True)
        if key not in seen:
            seen.add(key)
            out.append(j)
    return out


def scenario(ctx, cfg):
    sp = D.command_specs_cached()[cfg['cmd']]
    kw = D.build_kwargs(ctx, sp, cfg, fuzzy_pre=True)
    D.assume_preconditions(ctx, sp, kw, cfg)
    if cfg['kind'] == 'twice':
        hs = D.arrays_of(kw)
        first = hs[0]
        for k_, v in list(kw.items()):
            if isinstance(v, D.Holder):
                kw[k_] = first
            elif isinstance(v, list) and v and isinstance(v[0], D.Holder):
                kw[k_] = [first for _ in v]
    r = D.run_cmd(ctx, sp.name, kw, via='run')
    obs = [D.fact_ob('inputs keep their type, shape and element type', ('inputs_unchanged_meta', 0), group='input-meta')]
    for k_, ((d, m, rep, summ), (d2, m2, rep2, summ2)) in enumerate(zip(r.before, r.after)):
        if len(d) != len(d2):
            continue
        mb = m if m is not None else [z3.BoolVal(False)] * len(d)
        for i in range(len(d)):
            obs.append(D.term_ob('input %d cell %d: missing before <=> missing after' % (k_, i), r.pam[k_][i] == mb[i], group='input-mask'))
            diff = r.pad[k_][i] - d[i]
            obs.append(D.term_ob('input %d cell %d: non-missing value unchanged' % (k_, i), z3.Or(mb[i], r.pad[k_][i] == d[i]), group='input-value',
                                 neg=z3.And(z3.Not(mb[i]), z3.Or(diff > D.R_MARGIN, -diff > D.R_MARGIN))))
    return obs


def run_job(cfg, seed):
    return D.run_scenario_job(scenario, cfg, PROP, seed, max_paths=cfg.get('max_paths', 20000))


def replay(rec):
    return D.replay_record(rec)


def describe(tier):
    return {
        'level': 'model_checking',
        'functions': ['mpilot/commands.py: Command.run, validate_params, result', 'execute() of every data command of basic.py / fuzzy.py: ' + ', '.join(D.command_specs_cached()),
                      'mpilot/utils.py: insure_fuzzy, make_masked', 'mpilot/params.py: ResultParameter/ListParameter/NumberParameter.clean (via Command.run)'],
        'bounds': {
            'quick': 'producer arrays of 2 cells (3 for statistic-driven consumers), representations masked / nomask / plain ndarray, float64 (masked producers also int64 / uint64, alone and mixed); consumers: every data command, 1-3 inputs for n-ary forms incl. the single-input form, the same producer listed twice; every option value',
            'thorough': 'adds 4 inputs, mixed representations and int64/float64 mixes',
        },
        'outside': ['IEEE rounding', 'hard masks', 'unsigned data above 2^20, 8/16/32-bit element types', 'I/O commands (C17/C18)', 'values stored under missing cells may change (they are not part of the visible result)'],
        'assumptions': D.STUBS + ['A-pre: fuzzy-flagged producers lie in [-1,1] at non-missing cells (the in-place clamp of a shared single input is a no-op only under this documented precondition)',
                                  'shared buffers: views (.data, .mask, rows, reduce() returning its only element, numpy.ma.asarray views) alias the producer cells in symnp exactly as in numpy; validated per path'],
    }
