"""C01 -- every command executes exactly once, fed by its finished dependencies."""
import sys
import collections

import z3

from .. import progx as P
from .. import symx

PROP = 'C01'
KINDS = {0: None, 1: 'D', 2: 'L', 3: 'NL'}


def boot(scratch):
    P.boot(scratch)
    import mpvnodes  # noqa: F401


def plan(tier, seed):
    jobs = []
    if tier == 'quick':
        jobs += [dict(kind='graph', N=n, kinds=4, via=v, hist=2) for n in (1, 2, 3) for v in ('api', 'source')]
        jobs += [dict(kind='graph', N=4, kinds=2, via='api', hist=1, max_edges=4)]
    else:
        jobs += [dict(kind='graph', N=n, kinds=4, via=v, hist=3) for n in (1, 2, 3) for v in ('api', 'source')]
        for first in range(3):
            jobs.append(dict(kind='graph', N=4, kinds=3, via='api', hist=1, fix01=first))
        jobs.append(dict(kind='graph', N=4, kinds=4, via='source', hist=1, max_edges=4))
        jobs.append(dict(kind='graph', N=5, kinds=2, via='api', hist=1, max_edges=4))
    # side-effect-only commands (execute() returns None), consumers that never read their list inputs,
    # result names that differ only in letter case
    nmax = 3
    for extra in (dict(cls='NoneNode'), dict(cls='LazyNode'), dict(names='case')):
        for via in ('api', 'source'):
            jobs.append(dict(kind='graph', N=nmax, kinds=4 if tier == 'thorough' else 3, via=via, hist=2, **extra))
    jobs.append(dict(kind='graph', N=3, kinds=3, via='api', hist=1, replace=True))
    # a command fails inside execute() during the first run(); the cause is removed and the same Program is run again
    for via in ('api', 'source'):
        jobs.append(dict(kind='graph', N=3, kinds=4 if tier == 'thorough' else 3, via=via, hist=1, cls='FlakyNode', fail=True))
    # command objects (of this program or of an earlier one, with a namesake here) passed directly as arguments
    jobs.append(dict(kind='foreign'))
    jobs.append(dict(kind='memo'))
    return jobs


CASE_NAMES = ['slope', 'Slope', 'sLope', 'SLOPE', 'slopE']


def node_names(N, style=None):
    return CASE_NAMES[:N] if style == 'case' else ['c%d' % i for i in range(N)]


def build(N, edge, via, cls='Node', style=None):
    """edge[(i, j)] in KINDS keys: command i references command j that way.  -> Program"""
    import mpvnodes
    from mpilot.program import Program
    names = node_names(N, style)
    NodeCls = getattr(mpvnodes, cls)
    specs = []
    for i in range(N):
        direct = [names[j] for j in range(N) if edge.get((i, j)) == 1]
        lst = [names[j] for j in range(N) if edge.get((i, j)) == 2]
        nested = [names[j] for j in range(N) if edge.get((i, j)) == 3]
        specs.append((direct, lst, nested))
    if via == 'api':
        p = Program(libraries=('mpvnodes',))
        for i, (direct, lst, nested) in enumerate(specs):
            args = {}
            for key, d in zip(("D", "D2", "D3"), direct):
                args[key] = d
            if lst:
                args["L"] = list(lst)
            if nested:
                args["NL"] = [nested[:1], nested[1:]] if len(nested) > 1 else [nested]
            p.add_command(NodeCls, names[i], args)
        return p
    lines = []
    for i, (direct, lst, nested) in enumerate(specs):
        args = []
        for key, d in zip(("D", "D2", "D3"), direct):
            args.append('%s = %s' % (key, d))
        if lst:
            args.append('L = [%s]' % ', '.join(lst))
        if nested:
            groups = [nested[:1], nested[1:]] if len(nested) > 1 else [nested]
            args.append('NL = [%s]' % ', '.join('[%s]' % ', '.join(g) for g in groups))
        lines.append('%s = %s(%s)' % (names[i], cls, ',\n    '.join(args)))
    return Program.from_source('\n'.join(lines), libraries=('mpvnodes',))


def expected(N, edge, cls='Node', style=None):
    names = node_names(N, style)
    memo = {}
    if cls == 'NoneNode':
        return [None] * N

    def ev(i):
        if i in memo:
            return memo[i]
        deps = []
        direct = [j for j in range(N) if edge.get((i, j)) == 1]
        for j in direct[:3]:
            deps.append(('D', names[j], ev(j)))
        for j in range(N):
            if edge.get((i, j)) == 2 and cls != 'LazyNode':
                deps.append(('L', names[j], ev(j)))
        for j in range(N):
            if edge.get((i, j)) == 3 and cls != 'LazyNode':
                deps.append(('NL', names[j], ev(j)))
        memo[i] = (names[i], tuple(deps))
        return memo[i]
    return [ev(i) for i in range(N)]


def run_concrete(N, edge, via, history, cls='Node', style=None, replace=None, fail=None):
    """-> list of (label, ok) facts from one real run of the scenario"""
    import mpvnodes
    del mpvnodes.LOG[:]
    mpvnodes.FAIL.clear()
    facts = []
    p = build(N, edge, via, cls, style)
    names = node_names(N, style)
    if fail is not None:
        # first run: command `fail` fails inside execute(); afterwards the cause is removed and the same Program is run again
        MPilotError = sys.modules['mpilot.exceptions'].MPilotError
        mpvnodes.FAIL.add(names[fail])
        try:
            p.run()
            raised = False
        except MPilotError:
            raised = True
        finally:
            mpvnodes.FAIL.clear()
        facts.append(('the run in which %s fails reports an error' % names[fail], raised))
        facts.append(('%s is not finished after its execute() failed' % names[fail], p.commands[names[fail]].is_finished is not True))
    p.run()
    log = list(mpvnodes.LOG)
    for nm in names:
        facts.append(('%s executed exactly once by run()' % nm, log.count(nm) == 1))
    exp = expected(N, edge, cls, style)
    first = [p.commands[nm]._result for nm in names]
    for i, nm in enumerate(names):
        facts.append(('%s received the finished results of its dependencies' % nm, first[i] == exp[i]))
        facts.append(('%s is finished after run()' % nm, p.commands[nm].is_finished is True))
    for op in history:
        if op == N:
            p.run()
        else:
            r = p.commands[names[op]].result
            facts.append(('reading %s again returns the same result object' % names[op], r is first[op]))
    facts.append(('nothing executes during later run()/result accesses', list(mpvnodes.LOG) == log))
    if replace is not None:
        # the documented way to change a program: delete a command and add a new one under the same result name,
        # then run again: exactly the new command executes, once
        j = replace
        old = p.commands[names[j]]
        args = collections.OrderedDict((a.name, a.value) for a in old.arguments)
        del p.commands[names[j]]
        p.add_command(type(old), names[j], args)
        before = list(mpvnodes.LOG)
        p.run()
        delta = list(mpvnodes.LOG)[len(before):]
        facts.append(('after replacing %s, run() executes the new command exactly once and nothing else' % names[j], delta == [names[j]]))
        facts.append(('the replaced %s is finished after run()' % names[j], p.commands[names[j]].is_finished is True))
    return facts, log


def harness(ctx, cfg):
    if cfg['kind'] == 'memo':
        return memo_harness(ctx, cfg)
    if cfg['kind'] == 'foreign':
        return foreign_harness(ctx, cfg)
    N, K = cfg['N'], cfg['kinds']
    rank = [z3.Int('rank%d' % i) for i in range(N)]
    kind = {}
    for i in range(N):
        for j in range(N):
            if i != j:
                kind[i, j] = ctx.int('k_%d_%d' % (i, j))
                ctx.assume(z3.And(kind[i, j] >= 0, kind[i, j] < K))
                ctx.assume(z3.Implies(kind[i, j] > 0, rank[i] > rank[j]))      # acyclic
    for r in rank:
        ctx.assume(z3.And(r >= 0, r < N))
    if cfg.get('max_edges') is not None:
        ctx.assume(z3.Sum(*[z3.If(k > 0, 1, 0) for k in kind.values()]) <= cfg['max_edges'])
    if cfg.get('fix01') is not None and (0, 1) in kind:
        ctx.assume(kind[0, 1] == (cfg['fix01'] if cfg['fix01'] < K else 0))
    edge = {}
    for (i, j), v in kind.items():
        for val in range(K - 1):
            if ctx.decide(v == val):
                edge[i, j] = val
                break
        else:
            edge[i, j] = K - 1
    for i in range(N):
        if sum(1 for j in range(N) if edge.get((i, j)) == 1) > 3:
            raise symx.Abort("more than three direct references (bound)")
    history = [ctx.choice('op%d' % t, N + 1) for t in range(cfg.get('hist', 1))]
    replace = ctx.choice('replace', N) if cfg.get('replace') else None
    fail = ctx.choice('fail', N) if cfg.get('fail') else None
    rec = {'kind': 'graph', 'N': N, 'edges': [[i, j, k] for (i, j), k in sorted(edge.items()) if k], 'via': cfg['via'], 'history': history,
           'cls': cfg.get('cls', 'Node'), 'names': cfg.get('names'), 'replace': replace, 'fail': fail}
    MPilotError = sys.modules['mpilot.exceptions'].MPilotError
    try:
        facts, log = run_concrete(N, edge, cfg['via'], history, cfg.get('cls', 'Node'), cfg.get('names'), replace, fail)
    except MPilotError as e:
        return {'outcome': 'mpilot:' + type(e).__name__, 'obligations': [('acyclic program runs without error (%s)' % type(e).__name__, z3.BoolVal(False))],
                'groups': {}, 'replay': rec, 'validated': True}
    obs = [(l, z3.BoolVal(bool(ok))) for l, ok in facts]
    import re
    groups = {l: re.sub(r'\b(c\d|[sS][lL][oO][pP][eE])\b', '<cmd>', l) for l, _ in facts}
    return {'outcome': 'ok', 'obligations': obs, 'groups': groups, 'replay': rec, 'validated': True}


def run_foreign(refkind, namesake, ran_before, namesake_first, twice):
    """A command object passed directly as an argument (legal through add_command) is the command that is referenced,
    also when it belongs to an earlier Program and this program has a command of the same result name."""
    import mpvnodes
    from mpilot.program import Program
    del mpvnodes.LOG[:]
    mpvnodes.FAIL.clear()
    p1 = Program(libraries=('mpvnodes',))
    p1.add_command(mpvnodes.Node, 'zz', {})
    p1.add_command(mpvnodes.Node, 'c0', {'D': 'zz'})
    if ran_before:
        p1.run()
    f = p1.commands['c0']
    p2 = Program(libraries=('mpvnodes',))
    arg = {'D': {'D': f}, 'L': {'L': [f]}, 'NL': {'NL': [[f]]}}[refkind]
    if namesake and namesake_first:
        p2.add_command(mpvnodes.Node, 'c0', {})
    p2.add_command(mpvnodes.Node, 'c1', arg)
    if namesake and not namesake_first:
        p2.add_command(mpvnodes.Node, 'c0', {})
    p2.run()
    if twice:
        p2.run()
    fres = ('c0', (('D', 'zz', ('zz', ())),))
    log = list(mpvnodes.LOG)
    facts = [('the consumer receives the finished result of the command object it was given', p2.commands['c1']._result == ('c1', ((refkind, 'c0', fres),))),
             ('the referenced command object executed exactly once', log.count('c0') == 1 + (1 if namesake else 0) and f.is_finished is True and f._result == fres),
             ('the consumer executed exactly once', log.count('c1') == 1), ('the dependency of the referenced object executed exactly once', log.count('zz') == 1)]
    if namesake:
        facts.append(('the namesake in this program computed its own result', p2.commands['c0']._result == ('c0', ())))
    return facts, log


def foreign_harness(ctx, cfg):
    refkind = ('D', 'L', 'NL')[ctx.choice('refkind', 3)]
    namesake = ctx.decide(ctx.bool('namesake'))
    ran_before = ctx.decide(ctx.bool('ran_before'))
    first = ctx.decide(ctx.bool('namesake_first')) if namesake else False
    twice = ctx.decide(ctx.bool('run_twice'))
    rec = {'kind': 'foreign', 'refkind': refkind, 'namesake': namesake, 'ran_before': ran_before, 'namesake_first': first, 'twice': twice}
    MPilotError = sys.modules['mpilot.exceptions'].MPilotError
    try:
        facts, log = run_foreign(refkind, namesake, ran_before, first, twice)
    except MPilotError as e:
        return {'outcome': 'mpilot:' + type(e).__name__, 'obligations': [('program with a command object argument runs without error (%s)' % type(e).__name__, z3.BoolVal(False))],
                'groups': {}, 'replay': rec, 'validated': True}
    return {'outcome': 'ok', 'obligations': [(l, z3.BoolVal(bool(ok))) for l, ok in facts], 'groups': {}, 'replay': rec, 'validated': True}


def memo_harness(ctx, cfg):
    """inductive memo step: arbitrary is_finished/_result pre-state, one .result or run(): execute() runs iff not finished"""
    import mpvnodes
    from mpilot.program import Program
    del mpvnodes.LOG[:]
    fin = ctx.decide(ctx.bool('is_finished'))
    use_result = ctx.decide(ctx.bool('access_via_result'))
    twice = ctx.decide(ctx.bool('second_access'))
    p = Program(libraries=('mpvnodes',))
    p.add_command(mpvnodes.Node, 'c0', {})
    c = p.commands['c0']
    sentinel = ('preset',)
    if fin:
        c.is_finished = True
        c._result = sentinel
    for _ in range(2 if twice else 1):
        r = c.result if use_result else (c.run(), c._result)[1]
    n = mpvnodes.LOG.count('c0')
    obs = [('execute() runs iff the command was not finished', z3.BoolVal(n == (0 if fin else 1))),
           ('a finished result is returned unchanged', z3.BoolVal((r is sentinel) if fin else (r == ('c0', ()))))]
    rec = {'kind': 'memo', 'is_finished': fin, 'via_result': use_result, 'twice': twice}
    return {'outcome': 'ok', 'obligations': obs, 'groups': {}, 'replay': rec, 'validated': True}


def confirm(rec, label):
    if rec.get('kind') == 'foreign':
        MPilotError = sys.modules['mpilot.exceptions'].MPilotError
        try:
            facts, log = run_foreign(rec['refkind'], rec['namesake'], rec['ran_before'], rec['namesake_first'], rec['twice'])
        except MPilotError as e:
            return True, 'real run raised %s' % type(e).__name__
        bad = [l for l, ok in facts if not ok]
        return bool(bad), 'failed facts on a fresh real run: %s; execution log %s' % (bad[:4], log)
    if rec.get('kind') != 'graph':
        return True, 'memo step executed on the real Command class'
    edge = {(i, j): k for i, j, k in rec['edges']}
    MPilotError = sys.modules['mpilot.exceptions'].MPilotError
    try:
        facts, log = run_concrete(rec['N'], edge, rec['via'], rec['history'], rec.get('cls', 'Node'), rec.get('names'), rec.get('replace'), rec.get('fail'))
    except MPilotError as e:
        return True, 'real run raised %s' % type(e).__name__
    bad = [l for l, ok in facts if not ok]
    return bool(bad), 'failed facts on a fresh real run: %s; execution log %s' % (bad[:4], log)


def run_job(cfg, seed):
    return P.run_struct_job(harness, cfg, PROP, seed, confirm=confirm, max_paths=cfg.get('max_paths', 400000))


def replay(rec):
    ok, why = confirm(rec['record'], rec.get('label'))
    return {'reproduced': ok, 'why': why}


def describe(tier):
    return {
        'level': 'model_checking',
        'functions': ['mpilot/program.py: Program.run, add_command, from_source', 'mpilot/commands.py: Command.run, Command.result, validate_params',
                      'mpilot/params.py: ResultParameter.clean, ListParameter.clean', 'mpilot/utils.py: flatten'],
        'bounds': {
            'quick': 'all labelled acyclic graphs on N<=3 commands with each ordered pair referencing by {none, direct, list, nested list} (file order fixed, so every textual order of every DAG occurs), '
                     'built through add_command and through from_source; N=4 with direct/none and <=4 edges; then every history of 2 further run()/result accesses; the memo step from an arbitrary is_finished state',
            'thorough': 'N=4 with {none,direct,list} exhaustively, N=4 nested lists <=4 edges, N=5 <=5 edges, histories of 3',
        },
        'outside': ['more than 3 direct references per command (the harness command has three direct slots)', 'graphs beyond the stated sizes', 'cyclic graphs (C14)'],
        'assumptions': ['graph structure and access history are z3 integer variables; the explorer enumerates exactly the assignments z3 reports satisfiable under "acyclic" (rank variables)',
                        'the harness command library mpv/nodes/mpvnodes.py (in /verif) logs execute() calls; no source hook in /repo',
                        'every explored path IS a run of the real Program on that concrete structure (traces_validated = paths)'],
    }
