"""C19 -- command lookup depends only on the libraries requested.

One inductive step over an ARBITRARY registry pre-state: the process-global command registry is filled with
entries whose module names and command names are symbolic strings (anything earlier Program constructions,
imports or class definitions could have registered), library loading is stubbed (the pre-state already contains
whatever loading would add), and the real Program.__init__ runs with symbolic library names."""
import sys

import z3

from .. import progx as P
from .. import symx

PROP = 'C19'


def boot(scratch):
    P.boot(scratch)


def plan(tier, seed):
    reg = [dict(kind='register', entries=e, maxlen=4) for e in ((0, 1, 2) if tier == 'quick' else (0, 1, 2, 3))]
    if tier == 'quick':
        return reg + [dict(entries=e, libs=l, maxlen=4) for e, l in ((1, 1), (2, 1), (3, 1), (1, 2), (2, 2))]
    return reg + [dict(entries=e, libs=l, maxlen=5) for e in (1, 2, 3, 4) for l in (1, 2) if not (e == 4 and l == 2)]      # 4 entries x 2 libraries did not finish in 25 min


class FakeCommand(object):
    def __init__(self, name, tag):
        self.name = name
        self.__name__ = name
        self.tag = tag

    def __repr__(self):
        return 'FakeCommand#%d' % self.tag


def construct(entries, libs):
    """run the real Program.__init__ on the given registry pre-state; -> (outcome, set of entry tags served)"""
    C = sys.modules['mpilot.commands']
    PR = sys.modules['mpilot.program']
    E = sys.modules['mpilot.exceptions']
    infos = [C.CommandInfo(mod, FakeCommand(name, i)) for i, (mod, name) in enumerate(entries)]
    old_reg = C.Command._commands
    old_load = PR.Program.__dict__['load_commands']
    C.Command._commands = infos
    PR.Program.load_commands = classmethod(lambda cls, module: None)
    try:
        try:
            p = PR.Program(libraries=list(libs))
        except E.MPilotError:
            return 'duplicate-error', None
        served = set()
        for cmd in p.command_library.values():
            served.add(cmd.tag)
        keys_ok = all(any(k is inf.command.name for inf in infos if inf.command is cmd) for k, cmd in p.command_library.items())
        return 'ok', (served, keys_ok, len(p.command_library))
    finally:
        C.Command._commands = old_reg
        PR.Program.load_commands = old_load


def register_step(mods, names, newmod, newname, explicit):
    """define one command class through the real metaclass from the given registry pre-state
    -> (which earlier entries survive [bool per entry], number of added entries, the added entries are the new class)"""
    C = sys.modules['mpilot.commands']
    pre = set(C.CommandInfo(m_, FakeCommand(nm, i)) for i, (m_, nm) in enumerate(zip(mods, names)))
    before = sorted(pre, key=lambda inf: inf.command.tag)
    old = C.CommandMeta._commands
    C.CommandMeta._commands = pre
    try:
        attrs = {'__module__': newmod}
        if explicit:
            attrs['name'] = newname
            cls = C.CommandMeta('SomeClass', (C.Command,), attrs)
        else:
            cls = C.CommandMeta(newname, (C.Command,), attrs)
        after = list(C.CommandMeta._commands)
    finally:
        C.CommandMeta._commands = old
    added = [x for x in after if not any(x is y for y in before)]
    survive = [any(x is y for x in after) for y in before]
    return survive, len(added), all(a.command is cls for a in added)


def register_reference(mods, names, newmod, newname, survive, nadded, added_ok):
    """the three step obligations on concrete values"""
    same = [m_ == newmod and nm == newname for m_, nm in zip(mods, names)]
    kept_other = all(sm or sv for sm, sv in zip(same, survive))
    count_key = sum(1 for sm, sv in zip(same, survive) if sm and sv) + nadded
    return {'registry-kept': kept_other, 'registry-one-per-key': count_key == 1, 'registry-added': nadded <= 1 and added_ok}


def register_harness(ctx, cfg):
    """one step of the real metaclass: defining a command class from an arbitrary registry pre-state adds exactly
    one entry for it unless an entry with the same (module, command name) exists; either way there is exactly one entry
    per (module, command name) afterwards and all other entries are untouched"""
    C = sys.modules['mpilot.commands']
    n, L = cfg['entries'], cfg['maxlen']
    alpha = z3.Star(z3.Union(z3.Range('a', 'c'), z3.Re('.')))

    def sstr(name):
        v = ctx.string(name)
        ctx.assume(z3.And(z3.Length(v) <= L, z3.Length(v) >= 1, z3.InRe(v, alpha)))
        return symx.SymStr(v)
    mods = [sstr('module%d' % i) for i in range(n)]
    names = [sstr('name%d' % i) for i in range(n)]
    newmod, newname = sstr('newmodule'), sstr('newname')
    # representation invariant of the registry (established by this very step): one entry per (module, name)
    for i in range(n):
        for j in range(i + 1, n):
            ctx.assume(z3.Not(z3.And(mods[i].e == mods[j].e, names[i].e == names[j].e)))
    explicit = ctx.decide(ctx.bool('explicit_name_attribute'))
    survive, nadded, added_ok = register_step(mods, names, newmod, newname, explicit)
    same = [z3.And(m_.e == newmod.e, nm.e == newname.e) for m_, nm in zip(mods, names)]
    # which earlier entries survive: entries under another (module, name) key must; the entry under the new class's
    # own key may be kept (first definition wins - what the code does today) or replaced by the new class (latest
    # wins) - the property does not choose, it needs ONE entry per key (two would make every later Program that
    # requests this library fail with a duplicate error, i.e. depend on the history of definitions)
    kept_other = z3.And(*[z3.Or(sm, z3.BoolVal(sv)) for sm, sv in zip(same, survive)]) if n else z3.BoolVal(True)
    count_key = z3.Sum([z3.If(sm, 1, 0) for sm, sv in zip(same, survive) if sv] + [z3.IntVal(nadded)])
    obs = [('entries registered under another (module, command name) are never removed or replaced', kept_other),
           ('afterwards exactly one entry is registered under the new class\'s (module, command name)', count_key == 1),
           ('at most one entry is added, and it is the new class', z3.BoolVal(nadded <= 1 and added_ok))]
    groups = {obs[0][0]: 'registry-kept', obs[1][0]: 'registry-one-per-key', obs[2][0]: 'registry-added'}

    def concretise(m, label):
        ev = lambda x: symx.model_value(m, x.e)      # noqa: E731
        return {'kind': 'register', 'mods': [ev(x) for x in mods], 'names': [ev(x) for x in names], 'newmod': ev(newmod),
                'newname': ev(newname), 'explicit': bool(explicit), 'group': groups.get(label)}

    def path_check(m):
        rec = concretise(m, None)
        got = register_step(rec['mods'], rec['names'], rec['newmod'], rec['newname'], rec['explicit'])
        return got == (survive, nadded, added_ok), 'symbolic step %s vs the concrete step %s on %s' % ((survive, nadded, added_ok), got, rec)
    return {'outcome': 'added' if nadded else 'kept', 'obligations': obs, 'groups': groups, 'concretise': concretise, 'path_check': path_check,
            'replay': {'kind': 'register', 'entries': n}}


def harness(ctx, cfg):
    if cfg.get('kind') == 'register':
        return register_harness(ctx, cfg)
    n, nl, L = cfg['entries'], cfg['libs'], cfg['maxlen']
    alpha = z3.Star(z3.Union(z3.Range('a', 'c'), z3.Re('.')))

    def sstr(name):
        v = ctx.string(name)
        ctx.assume(z3.Length(v) <= L)
        ctx.assume(z3.Length(v) >= 1)
        ctx.assume(z3.InRe(v, alpha))
        return symx.SymStr(v)
    mods = [sstr('module%d' % i) for i in range(n)]
    names = [sstr('name%d' % i) for i in range(n)]
    libs = [sstr('lib%d' % j) for j in range(nl)]
    # the registry never holds two classes for the same (module, command name): CommandMeta keeps the first
    for i in range(n):
        for j in range(i + 1, n):
            ctx.assume(z3.Not(z3.And(mods[i].e == mods[j].e, names[i].e == names[j].e)))
    oc, got = construct(list(zip(mods, names)), libs)
    dot = z3.StringVal('.')
    member = [z3.Or(*[z3.Or(m.e == lb.e, z3.PrefixOf(z3.Concat(lb.e, dot), m.e)) for lb in libs]) for m in mods]
    clash = z3.Or(*[z3.And(member[i], member[j], names[i].e == names[j].e) for i in range(n) for j in range(i + 1, n)]) if n > 1 else z3.BoolVal(False)
    obs = []
    groups = {}
    if oc == 'ok':
        served, keys_ok, size = got
        lab = 'construction succeeds only if no two served commands share a name'
        obs.append((lab, z3.Not(clash)))
        groups[lab] = 'missing-duplicate-error'
        for i in range(n):
            lab = 'entry %d is served iff its module is a requested library or a dotted sub-module of one' % i
            obs.append((lab, member[i] == z3.BoolVal(i in served)))
            groups[lab] = 'membership'
        lab = 'each served command is registered under its own name'
        obs.append((lab, z3.BoolVal(bool(keys_ok and size == len(served)))))
        groups[lab] = 'keys'
    else:
        lab = 'construction fails only if two served commands share a name'
        obs.append((lab, clash))
        groups[lab] = 'spurious-duplicate-error'

    def concretise(m, label):
        ev = lambda s: symx.model_value(m, s.e)      # noqa: E731
        return {'entries': [[ev(a), ev(b)] for a, b in zip(mods, names)], 'libs': [ev(x) for x in libs]}
    def path_check(m):
        rec = concretise(m, None)
        oc2, got2 = construct([tuple(e) for e in rec['entries']], rec['libs'])
        same = (oc2 == oc) and (oc != 'ok' or got2[0] == got[0])
        return same, 'symbolic path outcome %s/%s vs concrete run %s/%s on %s' % (oc, got and sorted(got[0]), oc2, got2 and sorted(got2[0]), rec)
    return {'outcome': oc, 'obligations': obs, 'groups': groups, 'concretise': concretise, 'path_check': path_check,
            'replay': {'entries': n, 'libs': nl}}


def reference(entries, libs):
    member = [any(mod == lb or mod.startswith(lb + '.') for lb in libs) for mod, _ in entries]
    names = [nm for (mod, nm), mb in zip(entries, member) if mb]
    return member, len(names) != len(set(names))


def confirm(rec, label):
    if rec.get('kind') == 'register':
        got = register_step(rec['mods'], rec['names'], rec['newmod'], rec['newname'], rec['explicit'])
        ref = register_reference(rec['mods'], rec['names'], rec['newmod'], rec['newname'], *got)
        bad = not ref.get(rec.get('group'), all(ref.values()))
        return bad, 'real metaclass on registry %s defining (%r, %r): earlier entries surviving %s, %d added; obligations %s' % (
            list(zip(rec['mods'], rec['names'])), rec['newmod'], rec['newname'], got[0], got[1], ref)
    entries = [tuple(e) for e in rec['entries']]
    oc, got = construct(entries, rec['libs'])
    member, clash = reference(entries, rec['libs'])
    if oc != 'ok':
        return (not clash), 'real run: duplicate error; reference says clash=%s' % clash
    served, keys_ok, size = got
    want = {i for i, mb in enumerate(member) if mb}
    bad = (served != want) or clash or not keys_ok
    return bad, 'real run on modules/names %s libraries %s serves entries %s; reference serves %s (clash=%s)' % (entries, rec['libs'], sorted(served), sorted(want), clash)


def run_job(cfg, seed):
    return P.run_struct_job(harness, cfg, PROP, seed, confirm=confirm, max_paths=cfg.get('max_paths', 50000))


def replay(rec):
    ok, why = confirm(rec['record'], rec.get('label'))
    return {'reproduced': ok, 'why': why}


def describe(tier):
    return {
        'level': 'model_checking',
        'functions': ['mpilot/program.py: Program.__init__ (library filter, duplicate detection, command_library)', 'mpilot/commands.py: Command.get_commands, CommandInfo, CommandMeta.__new__ (registration step from an arbitrary registry pre-state)'],
        'bounds': {'quick': '<=3 registry entries with 1 library, <=2 entries with 2 libraries, module/command/library names = symbolic strings of length 1..4 over [a-c.]',
                   'thorough': '<=4 entries with 1 library, <=3 with 2 libraries, names of length 1..5; registration step from <=3 earlier entries'},
        'outside': ['the import machinery itself (Program.load_commands is stubbed: the registry pre-state is arbitrary instead)', 'names longer than the bound / other alphabets',
                    'which of two definitions with the same (module, name) wins (the step check only demands ONE entry per key, all other entries untouched; that is assumed as the representation invariant of the registry by the Program.__init__ check)'],
        'assumptions': ['S-load: load_commands does nothing; the registry pre-state is an arbitrary list of (module, command) entries, i.e. anything an earlier history could have produced',
                        'z3 sequence theory decides the prefix relations; counterexamples are replayed with concrete strings on the real Program.__init__'],
    }
