"""C04 -- fuzzy results always lie in [-1, +1]."""
import z3

from .. import datacmd as D

PROP = 'C04'


def boot(scratch):
    D.boot(scratch)


def fuzzy_commands():
    return [s for s in D.command_specs_cached().values() if s.fuzzy_out]


def plan(tier, seed):
    jobs = []
    for sp in fuzzy_commands():
        nary = any(p.kind == 'arrlist' for p in sp.params)
        has_sel = any(p.name == 'NumberToConsider' for p in sp.params)
        stats = sp.name in ('CvtToFuzzyCurveZScore',)
        for var in D.default_variants(sp, tier):
            if tier == 'quick':
                shapes = [((2,), 'm')] if not stats else [((2,), 'm')]
                ks = [1, 2, 3] if nary else [1]
                pts = [2]
            else:
                shapes = [((3,), 'm'), ((2, 2), 'm'), ((2,), 'n'), ((2,), 'd')]
                if stats:
                    shapes = [((2,), 'm'), ((2,), 'n')]
                ks = [1, 2, 3, 4] if nary else [1]
                pts = [2, 3]
            for shape, rep in shapes:
                for k in ks:
                    if nary and k >= 3 and (shape[0] > 2 or len(shape) > 1):
                        shape_ = (2,)       # 3 inputs: 2 cells (the sorting commands fork (k!)^cells ways)
                    else:
                        shape_ = shape
                    if nary and k >= 4:
                        shape_ = (1,)
                    for np_ in (pts if any(p.kind == 'numlist' and p.name != 'Weights' for p in sp.params) else [2]):
                        sels = range(1, k + 1) if has_sel else [1]
                        for sel in sels:
                            cfg = dict(var, cmd=sp.name, shape=list(shape_), k=k, reps=rep, pts=np_, sel=sel)
                            jobs.append(cfg)
                            # element types and array representations: integer inputs (all, or mixed with
                            # float ones), plain ndarrays / nomask arrays mixed with masked ones
                            if np_ == pts[0] and (k <= 2 or tier != 'quick') and sel == 1:
                                kk = ['i'] if k == 1 else ['i', 'if', 'fi']
                                for kinds in kk:
                                    jobs.append(dict(cfg, kinds=kinds))
                                if k == 2 and rep == 'm':
                                    for rr in ('dm', 'md', 'nm'):
                                        jobs.append(dict(cfg, reps=rr))
                                    if tier != 'quick':
                                        jobs.append(dict(cfg, reps='dm', kinds='fi'))
                                        jobs.append(dict(cfg, reps='md', kinds='if'))
    # ---- the same claim under a floating-point error model: every array operation may be off by up to 2^-40
    for sp in fuzzy_commands():
        nary = any(p.kind == 'arrlist' for p in sp.params)
        for var in D.default_variants(sp, 'quick'):
            if var.get('omit') and tier == 'quick':
                continue
            for k in ([2] if nary else [1]) if tier == 'quick' else ([1, 2, 3] if nary else [1]):
                jobs.append(dict(var, cmd=sp.name, shape=[1] if (nary and k > 2) or sp.name in ('CvtToFuzzyCurveZScore',) else [2], k=k, reps='m', pts=2 if tier == 'quick' else 3,
                                 sel=1, rounding=True, max_paths=3000))
    # de-duplicate
    seen, out = set(), []
    import json
    for j in jobs:
        key = json.dumps(j, sort_keys=True)
        if key not in seen:
            seen.add(key)
            out.append(j)
    return out


def scenario(ctx, cfg):
    sp = D.command_specs_cached()[cfg['cmd']]
    kw = D.build_kwargs(ctx, sp, cfg, fuzzy_pre=False)
    r = D.run_cmd(ctx, sp.name, kw)
    obs = []
    if r.outcome == 'ok':
        obs.append(D.fact_ob('result is an array', ('array_result', 0), group='type'))
        for i, (v, m) in enumerate(zip(r.pd, r.pm)):
            obs.append(D.term_ob('cell %d: missing or -1 <= value <= 1' % i, z3.Or(m, z3.And(v >= -1, v <= 1)), group='range', exact=True))
    return obs


def run_job(cfg, seed):
    return D.run_scenario_job(scenario, cfg, PROP, seed, max_paths=cfg.get('max_paths', 8000))


def replay(rec):
    return D.replay_record(rec)


def describe(tier):
    return {
        'level': 'model_checking',
        'functions': ['mpilot/libraries/eems/fuzzy.py: execute() of ' + ', '.join(s.name for s in fuzzy_commands()),
                      'mpilot/libraries/eems/basic.py: Normalize* bodies the fuzzy variants delegate to',
                      'mpilot/utils.py: insure_fuzzy, make_masked'],
        'bounds': {
            'quick': 'arrays of 2 cells (all mask placements symbolic), 1-3 inputs, 2 control points/categories, every string/boolean option, optional numbers given or omitted; float64 and int64 inputs (all-int and mixed for 2 inputs), masked arrays mixed with plain ndarrays / nomask arrays for 2 inputs',
            'thorough': 'arrays of <=3 cells and shape (2,2), masked / nomask / plain-ndarray inputs, 1-4 inputs (4 inputs: 1 cell), 2-3 control points',
        },
        'outside': ['IEEE-754 overflow, NaN/inf; rounding is covered only by the jobs marked rounding=true: there every array operation carries an unconstrained error of up to 2^-40 '
                    '(an over-approximation for values below 2^12; statistics - mean, std - are exact), a counterexample under that model is reported only when re-drawn concrete doubles exhibit it on the real code', 'arrays larger than the bound', 'hard masks',
                    'paths that divide by zero outside a masked division (counted as paths_outside_real_model)'],
        'assumptions': D.STUBS + ['inputs and ALL parameters are unconstrained reals: no fuzzy-range precondition is assumed for this property'],
    }
