"""C13 -- only declared error types escape, and the CLI reports them."""
import io
import os
import sys
import inspect
import collections

import z3

from .. import progx as P
from .. import symx
from .. import lexenc
from ..symx import SymNum
from . import C12

PROP = 'C13'


def boot(scratch):
    C12.boot(scratch)
    import mpilot.cli.mpilot  # noqa: F401
    import mpilot.libraries.eems.exceptions  # noqa: F401
    try:
        import mpilot.libraries.eems.netcdf.exceptions  # noqa: F401
    except Exception:
        pass


def plan(tier, seed):
    jobs = [dict(kind='lexeme', cls=c) for c in sorted(RISKY)]
    jobs.append(dict(kind='illegal'))
    jobs.append(dict(kind='cli-e2e'))
    jobs += [dict(kind='corrupt', lexeme=n) for n in CORRUPT_CLASSES]
    for name in sorted(C12.library()):
        jobs.append(dict(kind='matrix', target=name))
    jobs += [dict(kind='csv', rows=r) for r in (0, 1)]
    jobs += [dict(kind='csv', rows=r, shape0=s0, opts=o) for r in (2,) for s0 in range(4) for o in (0, 2)]
    jobs += [dict(kind='errors', cls=c.__name__) for c in error_classes()]
    return jobs


# ------------------------------------------------------------------ (a) lexemes whose token action could raise
HEX = '[0-9a-fA-F]'
BODY = r'([^"\\\r\n]|\\.)*'     # what the double-quoted alternative of t_STRING admits between the quotes
RISKY = {
    # classes of quoted-string content on which CPython's unicode_escape decoding raises (S-repr contract)
    'trailing-backslash': r'"([^"\\]|\\[^"])*\\""',
    'bad-x-escape': r'"[a-z ]*\\x(' + HEX + r'?[g-z ])[a-z ]*"',
    'bad-u-escape': r'"[a-z ]*\\u' + HEX + r'{0,3}[g-z ][a-z ]*"',
    'bad-U-escape': r'"[a-z ]*\\U' + HEX + r'{0,7}[g-z ][a-z ]*"',
    'U-out-of-range': r'"\\U[1-9a-f][1-9a-f]' + HEX + r'{6}"',
    'bad-N-escape': r'"[a-z ]*\\N(\{[a-z]{0,3}\}|[a-z ])[a-z ]*"',
    'non-ascii': '"[a-z]*[é中][a-z]*"',
    'single-quoted-trailing-backslash': r"'([^'\\]|\\[^'])*\\''",
    'very-long-integer': None,
}


def lexeme_harness(ctx, cfg):
    """z3 finds lexemes of the risky class that the live lexer really turns into ONE token of the expected rule
    (first-match lemma on the live master regex); the real parser is then run on each witness"""
    live = lexenc.Live()
    pp = sys.modules['mpilot.parser.parser']
    cls = cfg['cls']
    obs, groups = [], {}
    if cls == 'very-long-integer':
        witnesses = ['9' * 5000, '-' + '1' * 4400, '1' * 4301 + '.5']
    else:
        w, rest = z3.String('w'), z3.String('rest')
        rule = 't_STRING'
        base = [z3.InRe(w, lexenc.rx(RISKY[cls])), z3.Length(w) <= 14, rest == z3.StringVal(')'),
                live.first_match(rule, w, rest), z3.Not(live.longer(rule, w, rest))]
        witnesses = []
        block = []
        for _ in range(4):
            st, m = lexenc.solve(base + block, timeout=30000)
            if st != 'sat':
                break
            val = symx.model_value(m, w)
            witnesses.append(val)
            block.append(w != z3.StringVal(val))
        ctx.inputs['w'] = w
    lab0 = 'the class %s is reachable through the live token rules (else the lemma is vacuous)' % cls
    for wv in witnesses:
        text = 'A = Cmd(P = %s)' % wv
        try:
            pp.Parser().parse(text)
            oc = 'parsed'
        except SyntaxError:
            oc = 'SyntaxError'
        except Exception as e:
            oc = 'escaped:' + type(e).__name__
        lab = 'parsing %s text %r ends in a parse tree or a SyntaxError (%s)' % (cls, text[:40], oc)
        obs.append((lab, z3.BoolVal(not oc.startswith('escaped'))))
        groups[lab] = 'lexer-escape ' + cls
    rec = {'kind': 'lexeme', 'cls': cls, 'witnesses': [w_[:60] for w_ in witnesses], 'n': len(witnesses)}
    full = {'kind': 'lexeme', 'cls': cls, 'witnesses': witnesses}
    return {'outcome': '%d witnesses' % len(witnesses), 'obligations': obs, 'groups': groups, 'replay': rec, 'validated': True,
            'concretise': lambda m, label: full}


CORRUPT_CLASSES = ['identifier', 'integer', 'decimal', 'integer-exponent', 'double-quoted', 'single-quoted', 'unquoted-path', 'colon', 'comma', 'equal', 'lbrack', 'rbrack', 'lparen', 'rparen']
TEMPLATES = ['A = Cmd(P = "x" {T})', 'A = Cmd(P = [1 {T}])', 'A = {T}(P = 1)', '{T} = Cmd(P = 1)', 'A = Cmd(P = 1) {T}', 'A = Cmd({T} = 1)', 'A = Cmd(P {T} 1)',
             'A = Cmd(P = [k: {T} {T}])', 'A {T}', '{T}', 'A = Cmd(P = 1,, {T})', 'A = Cmd(P = 7 {T})']
LOAD_TEMPLATES = ['READ(InFileName = a.csv, InFieldName = {T})', 'CVTTOFUZZY(InFieldName = A, NewFieldName = {T})', 'READ(InFileName = {T}, InFieldName = [a, b])',
                  'READ(InFileName = a.csv, InFieldName = [{T}])', 'A = Copy(InFieldName = {T}, Metadata = [k: {T}])', '{T}(InFieldName = A)']


def corrupt_harness(ctx, cfg):
    """a token of each lexeme class (z3 witnesses of the class that the live lexer really reads as that token) is put
    where the grammar does not expect it: the real parser must answer with a tree or a SyntaxError, never anything else"""
    from . import C10
    live = lexenc.Live()
    pp = sys.modules['mpilot.parser.parser']
    pat, follow, rule = C10.LEXEMES[cfg['lexeme']]
    w, rest = z3.String('w'), z3.String('rest')
    base = [z3.InRe(w, lexenc.rx(pat)), z3.Length(w) <= 6, rest == z3.StringVal(' '), live.first_match(rule, w, rest), z3.Not(live.longer(rule, w, rest))]
    ws, block = [], []
    for _ in range(3):
        st, m = lexenc.solve(base + block, timeout=20000)
        if st != 'sat':
            break
        val = symx.model_value(m, w)
        ws.append(val)
        block.append(w != z3.StringVal(val))
    obs, groups, bad = [], {}, []
    lab = 'the lexeme class %s has witnesses' % cfg['lexeme']
    obs.append((lab, z3.BoolVal(bool(ws))))
    groups[lab] = 'vacuous'
    for wv in ws:
        for tmpl in TEMPLATES:
            text = tmpl.replace('{T}', wv)
            try:
                pp.Parser().parse(text)
                oc = 'parsed'
            except SyntaxError:
                oc = 'SyntaxError'
            except Exception as e:      # noqa: B902
                oc = 'escaped:' + type(e).__name__
                bad.append((text, type(e).__name__))
            lab = 'misplaced %s token: %r ends in a parse tree or a SyntaxError (%s)' % (cfg['lexeme'], text, oc)
            obs.append((lab, z3.BoolVal(not oc.startswith('escaped'))))
            groups[lab] = 'parser-escape at ' + cfg['lexeme']
        # the same tokens in EEMS-2 / loader positions: from_source must answer with a program, SyntaxError or an MPilot error
        from mpilot.program import Program
        E = sys.modules['mpilot.exceptions']
        for tmpl in LOAD_TEMPLATES:
            text = tmpl.replace('{T}', wv)
            try:
                Program.from_source(text)
                oc = 'loaded'
            except (SyntaxError, E.MPilotError) as e:
                oc = type(e).__name__
            except Exception as e:      # noqa: B902
                oc = 'escaped:' + type(e).__name__
                bad.append((text, type(e).__name__))
            lab = 'loading %r ends in a program, a SyntaxError or an MPilot error (%s)' % (text, oc)
            obs.append((lab, z3.BoolVal(not oc.startswith('escaped'))))
            groups[lab] = 'loader-escape at ' + cfg['lexeme']
    rec = {'kind': 'corrupt', 'lexeme': cfg['lexeme'], 'witnesses': ws, 'failures': bad[:5]}
    return {'outcome': '%d witnesses' % len(ws), 'obligations': obs, 'groups': groups, 'replay': rec, 'validated': True, 'concretise': lambda m, l: rec}


def illegal_harness(ctx, cfg):
    """characters no token rule accepts must end in SyntaxError (lexer error callback)"""
    live = lexenc.Live()
    pp = sys.modules['mpilot.parser.parser']
    s = z3.String('s')
    base = [z3.Length(s) >= 1, z3.Length(s) <= 3, z3.InRe(s, lexenc.ANYS), live.no_rule_matches(s),
            z3.Not(z3.InRe(s, z3.Concat(live.ignored, lexenc.ANYS)))]
    witnesses, block = [], []
    for _ in range(8):
        st, m = lexenc.solve(base + block, timeout=30000)
        if st != 'sat':
            break
        val = symx.model_value(m, s)
        witnesses.append(val)
        block.append(z3.SubString(s, 0, 1) != z3.StringVal(val[:1]))
    obs, groups = [], {}
    for wv in witnesses:
        for text in ('A = Cmd(P = %s)' % wv, wv, 'A = Cmd(P = 1)\n%s' % wv):
            try:
                pp.Parser().parse(text)
                oc = 'parsed'
            except SyntaxError:
                oc = 'SyntaxError'
            except Exception as e:
                oc = 'escaped:' + type(e).__name__
            lab = 'text with the unmatched characters %r ends in a parse tree or a SyntaxError (%s)' % (text[:30], oc)
            obs.append((lab, z3.BoolVal(not oc.startswith('escaped'))))
            groups[lab] = 'lexer-escape illegal-character'
    full = {'kind': 'illegal', 'witnesses': witnesses}
    return {'outcome': '%d witnesses' % len(witnesses), 'obligations': obs, 'groups': groups, 'replay': full, 'validated': True, 'concretise': lambda m, label: full}


# ------------------------------------------------------------------ (b) type-confused arguments: the C12 matrix, judged for escaping exceptions only
def matrix_harness(ctx, cfg):
    out = C12.harness(ctx, cfg)
    keep = [(l, t) for l, t in out['obligations'] if out['groups'].get(l) == 'escaped-exception']
    oc = out['outcome']
    lab = keep[0][0] if keep else 'only MPilot errors are raised'
    out['obligations'] = keep
    out['groups'] = {lab: 'escaped-exception command=' + cfg['target'] if oc.startswith('escaped') else 'escaped-exception'}
    return out


# ------------------------------------------------------------------ (c) CSV contents
CELLS = ['1', '2.5', '', 'abc', '-9999', ' 3 ', 'nan']


def csv_harness(ctx, cfg):
    rows = cfg['rows']
    if rows <= 1:
        header = ['A,B', 'A', 'B,A', '', 'X,Y'][ctx.choice('header', 5)]
        lines = [header] if ctx.choice('has_header', 2) else []
        opts = ctx.choice('opts', 3)
    else:
        lines, opts = ['A,B'], cfg.get('opts', 0)
    for r in range(rows):
        shape = cfg['shape0'] if (r == 0 and 'shape0' in cfg) else ctx.choice('row%d.shape' % r, 4)       # 0: two cells, 1: one cell (ragged), 2: blank line, 3: three cells
        if shape == 2:
            lines.append('')
            continue
        n = {0: 2, 1: 1, 3: 3}[shape]
        cells = [CELLS[ctx.choice('row%d.c0' % r, len(CELLS))]]
        for c in range(1, n):
            cells.append(['1', '', 'abc'][ctx.choice('row%d.c%d' % (r, c), 3)])
        lines.append(','.join(cells))
    rec = {'kind': 'csv', 'lines': lines, 'opts': opts}
    oc, detail = run_csv(rec)
    lab = 'loading and running a model on this CSV content succeeds or fails with an MPilot error (%s)' % oc
    return {'outcome': oc.split(':')[0], 'obligations': [(lab, z3.BoolVal(not oc.startswith('escaped')))], 'groups': {lab: 'csv-escape'}, 'replay': rec, 'validated': True}


def run_csv(rec):
    E = sys.modules['mpilot.exceptions']
    from mpilot.program import Program
    path = os.path.join(P.SCRATCH, 'c13-%d.csv' % os.getpid())
    with open(path, 'w') as f:
        f.write('\n'.join(rec['lines']) + ('\n' if rec['lines'] else ''))
    extra = ['', ', MissingVal = -9999', ', MissingVal = -9999, DataType = Integer'][rec['opts']]
    src = 'A = EEMSRead(InFileName = "%s", InFieldName = A%s)\nB = EEMSRead(InFileName = "%s", InFieldName = B)\nS = Sum(InFieldNames = [A, B])\n' % (path, extra, path)
    try:
        p = Program.from_source(src)
        p.run()
        return 'ok', ''
    except (E.MPilotError, SyntaxError) as e:
        return 'declared:' + type(e).__name__, ''
    except Exception as e:
        return 'escaped:' + type(e).__name__, str(e)[:80]


# ------------------------------------------------------------------ (d) every error class prints, and the CLI reports it
def error_classes():
    E = sys.modules['mpilot.exceptions']
    mods = [E, sys.modules.get('mpilot.libraries.eems.exceptions'), sys.modules.get('mpilot.libraries.eems.netcdf.exceptions')]
    out = []
    for m in mods:
        if m is None:
            continue
        for name, c in sorted(vars(m).items()):
            if isinstance(c, type) and issubclass(c, E.MPilotError) and c.__module__ == m.__name__:
                out.append(c)
    return out


SHAPES = [(3,), (2, 2), (1, 2, 3), ()]


def arg_for(ctx, pname, tag):
    if pname == 'lineno':
        return 'LINENO'
    if 'shape' in pname:
        return SHAPES[ctx.choice(tag + '.' + pname, len(SHAPES))]
    if pname in ('len_a', 'len_b', 'length', 'target_length'):
        return [0, 3][ctx.choice(tag + '.' + pname, 2)]
    if pname == 'exc':
        return [ZeroDivisionError('division by zero'), KeyError('k'), ValueError('é')][ctx.choice(tag + '.exc', 3)]
    if pname == 'parameters':
        return [['a', 'b'], {'x'}, ()][ctx.choice(tag + '.parameters', 3)]
    if pname == 'command':
        return ['Cmd', sys.modules['mpilot.commands'].Command][ctx.choice(tag + '.command', 2)]
    if pname == 'value':
        return [5, 'v', [1, 2], None, 'é'][ctx.choice(tag + '.value', 5)]
    if pname == 'message':
        return [None, 'custom message'][ctx.choice(tag + '.message', 2)]
    if pname == 'solution':
        return [None, 'do this'][ctx.choice(tag + '.solution', 2)]
    return ['text', 'Ünï'][ctx.choice(tag + '.' + pname, 2)]


def errors_harness(ctx, cfg):
    E = sys.modules['mpilot.exceptions']
    cli = sys.modules['mpilot.cli.mpilot']
    cls = [c for c in error_classes() if c.__name__ == cfg['cls']][0]
    sig = inspect.signature(cls.__init__)
    nlines = 6
    lineno_none = bool(ctx.choice('lineno_none', 2))
    ln = SymNum(ctx.real('lineno', integer=True), 'i')
    ctx.assume(z3.And(ln.e >= 1, ln.e <= nlines))
    kwargs = {}
    for pname, prm in sig.parameters.items():
        if pname == 'self' or prm.kind in (prm.VAR_POSITIONAL, prm.VAR_KEYWORD):
            continue
        v = arg_for(ctx, pname, cls.__name__)
        if isinstance(v, str) and v == 'LINENO':
            v = None if lineno_none else ln
        kwargs[pname] = v
    obs, groups = [], {}
    rec = {'kind': 'errors', 'class': cls.__name__, 'args': {k: repr(v) for k, v in kwargs.items() if k != 'lineno'}, 'lineno_none': lineno_none}
    try:
        ex = cls(**kwargs)
    except Exception as e:
        lab = '%s can be constructed with its documented fields (%s: %s)' % (cls.__name__, type(e).__name__, e)
        return {'outcome': 'ctor', 'obligations': [(lab, z3.BoolVal(False))], 'groups': {lab: 'error-class-ctor ' + cls.__name__}, 'replay': rec, 'validated': True}
    try:
        msg = str(ex)
        oc = 'ok'
    except (symx.Abort, symx.Outside, symx.Inconclusive):
        raise
    except Exception as e:
        msg, oc = None, 'str-failed:' + type(e).__name__
    lab = 'str(%s) yields the message (%s)' % (cls.__name__, oc)
    obs.append((lab, z3.BoolVal(oc == 'ok')))
    groups[lab] = 'error-message ' + cls.__name__
    if oc == 'ok':
        # ---- the real CLI handler with Program stubbed to raise this error
        path = os.path.join(P.SCRATCH, 'c13-model-%d.mpt' % os.getpid())
        lines = ['line %d of the model' % (i + 1) for i in range(nlines)]
        with open(path, 'w') as f:
            f.write('\n'.join(lines) + '\n')

        class Boom(object):
            @classmethod
            def from_source(cls_, *a, **k):
                raise ex
        old = cli.Program
        cli.Program = Boom
        err, status = io.StringIO(), None
        old_err = sys.stderr
        sys.stderr = err
        try:
            try:
                cli.main.callback('eems-csv', path, ())
                status = 0
            except SystemExit as e:
                status = e.code
            except (symx.Abort, symx.Outside, symx.Inconclusive):
                raise
            except Exception as e:
                status = 'escaped:' + type(e).__name__
        finally:
            sys.stderr = old_err
            cli.Program = old
        text = err.getvalue()
        lab = 'the command-line tool exits non-zero for %s (status %r)' % (cls.__name__, status)
        obs.append((lab, z3.BoolVal(isinstance(status, int) and status != 0)))
        groups[lab] = 'cli-status'
        lab = 'the problem/solution message is written to standard error'
        obs.append((lab, z3.BoolVal(msg in text)))
        groups[lab] = 'cli-message'
        if isinstance(ex, E.ProgramError) and not lineno_none and isinstance(status, int):
            marked = [l_[4:] for l_ in text.split('\n') if l_.startswith('--> ')]
            ok_marker = len(marked) == 1 and marked[0] in lines
            lab = 'exactly one source line is marked'
            obs.append((lab, z3.BoolVal(ok_marker)))
            groups[lab] = 'cli-marker'
            if ok_marker:
                lab = 'the marked line is the line the error carries'
                obs.append((lab, ln.e == lines.index(marked[0]) + 1))
                groups[lab] = 'cli-marker'
    return {'outcome': oc, 'obligations': obs, 'groups': groups, 'replay': rec, 'validated': True}


def cli_e2e_harness(ctx, cfg):
    """whole command-line runs on real files (layouts, line endings and faults of C11's CLI job): the tool must exit
    non-zero with the message on stderr and let no exception escape"""
    from . import C11
    import mpvnodes  # noqa: F401
    out = C11.cli_harness(ctx, cfg)
    keep = [(l, t) for l, t in out['obligations'] if out['groups'][l] == 'cli-status']
    out['obligations'] = keep
    out['groups'] = {l: 'cli-e2e-status' for l, _ in keep}
    return out


def harness(ctx, cfg):
    if cfg['kind'] == 'cli-e2e':
        return cli_e2e_harness(ctx, cfg)
    return {'lexeme': lexeme_harness, 'corrupt': corrupt_harness, 'illegal': illegal_harness, 'matrix': matrix_harness, 'csv': csv_harness, 'errors': errors_harness}[cfg['kind']](ctx, cfg)


def confirm(rec, label):
    k = rec.get('kind')
    pp = sys.modules['mpilot.parser.parser']
    if k in ('lexeme', 'illegal'):
        bad = []
        for wv in rec['witnesses']:
            text = 'A = Cmd(P = %s)' % wv
            try:
                pp.Parser().parse(text)
            except SyntaxError:
                pass
            except Exception as e:
                bad.append((text[:50], type(e).__name__))
        return bool(bad), 'real parser on the solver-found lexemes: %s' % (bad[:3],)
    if k == 'corrupt':
        return bool(rec['failures']), 'real parser: %s' % (rec['failures'][:3],)
    if k == 'csv':
        oc, detail = run_csv(rec)
        return oc.startswith('escaped'), 'real run on CSV %r: %s %s' % (rec['lines'], oc, detail)
    if k == 'errors':
        return True, 'the explored path executed the real error class and CLI handler'
    if 'target' in rec:
        oc, detail = C12.concrete_attempt(rec)
        return oc.startswith('escaped'), 'concrete run: %s %s' % (oc, detail)
    return True, 'executed on the real code'


def run_job(cfg, seed):
    return P.run_struct_job(harness, cfg, PROP, seed, confirm=confirm, max_paths=cfg.get('max_paths', 20000))


def replay(rec):
    ok, why = confirm(rec['record'], rec.get('label'))
    return {'reproduced': ok, 'why': why}


def describe(tier):
    return {
        'level': 'model_checking',
        'functions': ['mpilot/parser/parser.py: token rules and actions (t_STRING decode, t_INT, t_FLOAT, t_error), p_error', 'mpilot/program.py: from_source, run', 'mpilot/commands.py: Command.run (wrapping)',
                      'mpilot/params.py: clean()', 'mpilot/libraries/eems/csv/io.py: EEMSRead.execute', 'mpilot/cli/mpilot.py: main', '__str__ of every error class in mpilot/exceptions.py and the eems exceptions modules'],
        'bounds': {'quick': '9 classes of risky lexemes (z3 finds up to 4 witnesses each through the first-match lemma on the live master regex, lexeme <= 14 chars) + characters no rule matches; the full C12 fault matrix judged for escaping exceptions; '
                            'CSV files with 0-2 data rows x 5 header forms x {2 cells, ragged, blank line, 3 cells} x 7 cell forms x 3 read-option sets; every MPilot error class x representative field values x symbolic line number 1..6 through the real CLI handler',
                   'thorough': 'as quick (CSV files of 3 rows did not finish: > 90 000 paths per configuration); larger sets of misplaced-token templates'},
        'outside': ['lexemes longer than the bound', 'NetCDF inputs', 'out-of-memory / interpreter-level failures', 'S-repr: which escape sequences CPython\'s unicode_escape codec rejects is a documented contract, exercised on the witnesses'],
        'assumptions': ['the solver decides which inputs of each risky class are real lexemes of the live lexer; the behaviour of the token action on them is observed on the real parser',
                        'error line numbers lie within the file (1..number of lines)'],
    }
