"""C11 -- line numbers in parse trees and errors are the true source lines."""
import sys
import collections

import z3

from .. import progx as P
from .. import symx
from .. import lexenc
from ..symx import SymNum, SymStr

PROP = 'C11'
LIBS = ('mpvnodes',)


def boot(scratch):
    P.boot(scratch)
    from numbers import Number
    Number.register(SymNum)
    import mpvnodes  # noqa: F401
    import mpilot.parser.parser  # noqa: F401


def plan(tier, seed):
    jobs = [dict(kind='newline', maxlen=3 if tier == 'quick' else 4), dict(kind='newline-token')]
    for nl in ('\n', '\r\n', '\r'):
        for v2 in (False, True):
            if tier == 'quick':
                jobs.append(dict(kind='layout', nl=nl, prior_v2=v2, ncmd=2, ml_cmds=2))
            else:
                # 3 commands: ~72 000 layouts per line-break style; split over workers by the first command's style
                for st in range(3):
                    jobs.append(dict(kind='layout', nl=nl, prior_v2=v2, ncmd=3, ml_cmds=1, max_paths=400000, pin={'style0': st}))
    jobs.append(dict(kind='errors', via='source-stub'))
    jobs.append(dict(kind='cli'))
    return jobs


# ------------------------------------------------------------------ (1) the newline rule counts logical line breaks
def breaks_term(s, n):
    """number of line breaks (\\n, \\r\\n or \\r each count once) in a string of concrete length n"""
    at = lambda i: z3.SubString(s, z3.IntVal(i), z3.IntVal(1))      # noqa: E731
    t = []
    for i in range(n):
        is_n = at(i) == z3.StringVal('\n')
        is_r = at(i) == z3.StringVal('\r')
        prev_r = (at(i - 1) == z3.StringVal('\r')) if i > 0 else z3.BoolVal(False)
        t.append(z3.If(z3.Or(is_r, z3.And(is_n, z3.Not(prev_r))), z3.RealVal(1), z3.RealVal(0)))
    return z3.Sum(*t) if len(t) > 1 else (t[0] if t else z3.RealVal(0))


def newline_harness(ctx, cfg):
    pp = sys.modules['mpilot.parser.parser']
    lexobj = pp.Lexer()
    w = ctx.string('run')
    ctx.assume(z3.InRe(w, z3.Plus(z3.Union(z3.Re('\r'), z3.Re('\n')))))
    ctx.assume(z3.Length(w) <= cfg['maxlen'])
    k = SymNum(ctx.real('lineno_before', integer=True), 'i')

    class Tok(object):
        pass

    class Lx(object):
        pass
    t = Tok()
    t.value = SymStr(w)
    t.lexer = Lx()
    t.lexer.lineno = k
    t.type = 'newline'
    ret = lexobj.t_newline(t)
    n = len(t.value)        # concrete on this path (the rule forked on it or we fork here)
    after = t.lexer.lineno
    obs = [('the newline rule yields no token', z3.BoolVal(ret is None)),
           ('a run of line-break characters advances the line counter by the number of line breaks (CRLF counts once)',
            symx.lift(after) == k.e + breaks_term(w, n))]
    groups = {obs[0][0]: 'newline-token', obs[1][0]: 'newline-count'}

    def conc(m, label):
        return {'kind': 'newline', 'run': symx.model_value(m, w), 'before': int(symx.model_value(m, k.e))}
    return {'outcome': 'len%d' % n, 'obligations': obs, 'groups': groups, 'concretise': conc, 'replay': {'kind': 'newline'},
            'path_check': lambda m: check_newline(conc(m, None), symx.model_value(m, symx.lift(after)))}


def real_newline(rec):
    live = lexenc.Live()
    toks, end = live.scan('a' + rec['run'] + 'b', lineno=rec['before'])
    return toks, end


def check_newline(rec, sym_after):
    toks, end = real_newline(rec)
    return int(sym_after) == end, 'symbolic counter after the run %r: %s, real lexer: %s' % (rec['run'], sym_after, end)


def logical_breaks(s):
    return s.count('\n') + s.count('\r') - s.count('\r\n')


def newline_token_harness(ctx, cfg):
    """lexical lemma on the live master regex: a maximal run of line-break characters is ONE newline token"""
    live = lexenc.Live()
    w, rest = z3.String('w'), z3.String('rest')
    rule = [n for n in live.order if 'newline' in n]
    if not rule:
        return {'outcome': 'no-newline-rule', 'obligations': [('the lexer has a newline rule', z3.BoolVal(False))], 'groups': {}, 'replay': {'kind': 'lemma'}, 'validated': True}
    rule = rule[0]
    pre = z3.And(z3.InRe(w, z3.Plus(z3.Union(z3.Re('\r'), z3.Re('\n')))), z3.Length(w) <= 4,
                 z3.InRe(rest, z3.Option(z3.Concat(lexenc.charset(lambda c: c not in '\r\n'), lexenc.ANYS))), z3.Length(rest) <= 2)
    ctx.assume(pre)
    ctx.inputs['w'] = w
    ctx.inputs['rest'] = rest
    good = z3.And(live.first_match(rule, w, rest), z3.Not(live.longer(rule, w, rest)))
    obs = [('a maximal run of line-break characters is matched whole by the newline rule', good)]

    def conc(m, label):
        return {'kind': 'lemma', 'w': symx.model_value(m, w), 'rest': symx.model_value(m, rest), 'rule': rule}
    return {'outcome': 'lemma', 'obligations': obs, 'groups': {obs[0][0]: 'newline-lemma'}, 'concretise': conc, 'replay': {'kind': 'lemma'}, 'validated': True}


# ------------------------------------------------------------------ (2) layouts x parser history
def render(ctx, cfg):
    """a program with solver-chosen layout; returns (text, expected) where expected lists (kind, name, line)"""
    nl = cfg['nl']
    lines = []          # physical lines (without terminator)
    expected = []
    cur = []

    def newline():
        lines.append(''.join(cur))
        del cur[:]

    def blank(tag, upto=3):
        for j in range(ctx.choice(tag, upto)):
            cur.append('' if j % 2 == 0 else '   # a comment line')
            newline()
    for c in range(cfg['ncmd']):
        blank('pre%d' % c)
        expected.append(('command', 'R%d' % c, len(lines) + 1))
        cur.append('R%d = Node(' % c)
        style = ctx.choice('style%d' % c, 3)      # 0: one line, 1: one argument per line, 2: list spread over lines
        args = [('D', 'X') if c == 0 else ('D', 'R%d' % (c - 1)), ('L', None), ('NL', '[]')]
        for ai, (an, av) in enumerate(args):
            if style >= 1:
                if ai == 0 and ctx.choice('tc%d' % c, 2):
                    cur.append('  # trailing comment')
                newline()
                if style == 2 and ai == 1:
                    blank('ab%d' % c, 2)
                cur.append('    ')
            expected.append(('argument', '%s@R%d' % (an, c), len(lines) + 1))
            if av is not None:
                if style == 2 and an == 'NL' and ctx.choice('vl%d' % c, 2):
                    cur.append('%s =' % an)         # the value starts on the next line
                    newline()
                    cur.append('        ')
                    expected.append(('value', '%s@R%d' % (an, c), len(lines) + 1))
                    cur.append(av)
                else:
                    expected.append(('value', '%s@R%d' % (an, c), len(lines) + 1))
                    cur.append('%s = %s' % (an, av))
            else:
                expected.append(('value', '%s@R%d' % (an, c), len(lines) + 1))
                cur.append('%s = [' % an)
                for ei in range(2):
                    if style == 2:
                        newline()
                        cur.append('        ')
                    expected.append(('element', 'L[%d]@R%d' % (ei, c), len(lines) + 1))
                    cur.append('E%d' % ei + (', ' if ei == 0 else ''))
                if style == 2:
                    newline()
                    cur.append('    ')
                cur.append(']')
            if ai < len(args) - 1:
                cur.append(', ')
        # a quoted string that spans two source lines (a multi-line description in the Metadata): an argument spread
        # over several lines like any other
        if c < cfg.get('ml_cmds', 0) and ctx.choice('ml%d' % c, 2):
            cur.append(', ')
            expected.append(('argument', 'Metadata@R%d' % c, len(lines) + 1))
            expected.append(('value', 'Metadata@R%d' % c, len(lines) + 1))
            cur.append('Metadata = [Note: "first line')
            newline()
            cur.append('second line"]')
        if style >= 1:
            newline()
        cur.append(')')
        newline()
    text = nl.join(lines) + (nl if ctx.choice('final_nl', 2) else '')
    return text, expected


def walk(tree):
    out = []
    for cmd in tree.commands:
        out.append(('command', cmd.result_name, cmd.lineno))
        for a in cmd.arguments:
            out.append(('argument', '%s@%s' % (a.name, cmd.result_name), a.lineno))
            out.append(('value', '%s@%s' % (a.name, cmd.result_name), a.value.lineno))
            if isinstance(a.value.value, list):
                for i, e in enumerate(a.value.value):
                    out.append(('element', '%s[%d]@%s' % (a.name, i, cmd.result_name), e.lineno))
    return out


def layout_harness(ctx, cfg):
    pp = sys.modules['mpilot.parser.parser']
    text, expected = render(ctx, cfg)
    parser = pp.Parser()
    # arbitrary history of earlier parses on this parser object: stale counter, sticky version flag
    k = SymNum(ctx.real('stale_lineno', integer=True), 'i')
    ctx.assume(k.e >= 1)
    parser.lexer.lineno = k
    parser.eems_v2 = cfg['prior_v2']
    try:
        tree = parser.parse(text)
    except SyntaxError as e:
        return {'outcome': 'syntax-error', 'obligations': [('the rendered program parses (%s)' % e, z3.BoolVal(False))], 'groups': {'the rendered program parses (%s)' % e: 'layout-rejected nl=%r' % cfg['nl']}, 'replay': {'kind': 'layout', 'text': text},
                'validated': True}
    got = walk(tree)
    obs, groups = [], {}
    lab = 'the tree has the nodes the renderer wrote'
    obs.append((lab, z3.BoolVal([(a, b) for a, b, _ in got] == [(a, b) for a, b, _ in expected])))
    groups[lab] = 'layout-structure'
    for (kind, name, line), (_, _, want) in zip(got, expected):
        lab = '%s %s carries its true source line %d whatever was parsed before' % (kind, name, want)
        obs.append((lab, symx.lift(line) == want))
        groups[lab] = 'lineno-%s nl=%r' % (kind, cfg['nl'])
    lab = 'a MPilot-syntax file is reported as version 3 whatever was parsed before'
    obs.append((lab, z3.BoolVal(tree.version == 3)))
    groups[lab] = 'sticky-version'

    def conc(m, label):
        return {'kind': 'layout', 'text': text, 'stale': int(symx.model_value(m, k.e)), 'prior_v2': cfg['prior_v2'], 'expected': expected}
    return {'outcome': 'parsed', 'obligations': obs, 'groups': groups, 'concretise': conc, 'replay': {'kind': 'layout', 'text': text}, 'validated': True}


def real_layout(rec):
    pp = sys.modules['mpilot.parser.parser']
    parser = pp.Parser()
    # reach the recorded pre-state through real parses: a first text with stale-1 line breaks (and EEMS 2 syntax if recorded)
    first = ('READ(InFileName = a, InFieldName = b)' if rec['prior_v2'] else 'Q = Node(D = X)') + '\n' * (rec['stale'] - 1)
    worst = ([], 3)
    for history in ([first], [first + ' = = ='], [first, first + ' ( ('], [first + ' (']):
        parser = pp.Parser()
        for text in history:
            try:
                parser.parse(text)
            except SyntaxError:
                pass
        tree = parser.parse(rec['text'])
        got = walk(tree)
        bad = [(g, e) for g, e in zip(got, rec['expected']) if g[2] != e[2]]
        if bad or tree.version != 3:
            return bad, tree.version
    return worst


# ------------------------------------------------------------------ (3) errors carry the line of the offending node
def errors_harness(ctx, cfg):
    """the loader is fed a parse tree whose every lineno is a distinct symbolic integer (stubbed Parser);
    one fault is injected; the raised error's lineno term must be the term of the offending node"""
    pp = sys.modules['mpilot.parser.parser']
    PR = sys.modules['mpilot.program']
    E = sys.modules['mpilot.exceptions']
    cnt = [0]
    lines = {}

    def ln(tag):
        cnt[0] += 1
        v = SymNum(ctx.real('line_%s' % tag, integer=True), 'i')
        lines[tag] = v
        return v
    faults = ['unknown-command', 'duplicate-result', 'missing-required', 'undeclared-parameter', 'bad-direct-reference', 'bad-list-element', 'bad-nested-element',
              'not-a-list', 'bad-metadata']
    fault = faults[ctx.choice('fault', len(faults))]
    where = ctx.choice('where', 2)        # which of the two commands carries the fault

    def expr(v, tag):
        return pp.ExpressionNode(v, ln(tag))

    def command(i):
        name = 'R%d' % i
        args = []
        cmdname = 'Strict' if fault == 'missing-required' and i == where else 'Node'
        if fault == 'unknown-command' and i == where:
            cmdname = 'NoSuchCommand'
        bad = (i == where)
        dval = 'Missing' if (bad and fault == 'bad-direct-reference') else 'X'
        args.append(pp.ArgumentNode('D', expr(dval, 'D%d.v' % i), ln('D%d' % i)))
        lst = [expr('X', 'L%d.0' % i), expr('Missing' if (bad and fault == 'bad-list-element') else 'X', 'L%d.1' % i)]
        lval = expr(lst, 'L%d.v' % i) if not (bad and fault == 'not-a-list') else expr(5, 'L%d.v' % i)
        args.append(pp.ArgumentNode('L', lval, ln('L%d' % i)))
        nl = [expr([expr('X', 'NL%d.00' % i)], 'NL%d.0' % i), expr([expr('Missing' if (bad and fault == 'bad-nested-element') else 'X', 'NL%d.10' % i)], 'NL%d.1' % i)]
        args.append(pp.ArgumentNode('NL', expr(nl, 'NL%d.v' % i), ln('NL%d' % i)))
        if bad and fault == 'undeclared-parameter':
            args.append(pp.ArgumentNode('Bogus', expr(1, 'Bogus%d.v' % i), ln('Bogus%d' % i)))
        if bad and fault == 'bad-metadata':
            args.append(pp.ArgumentNode('Metadata', expr(7, 'Meta%d.v' % i), ln('Meta%d' % i)))
        rname = 'R0' if (fault == 'duplicate-result' and i == 1) else name
        return pp.CommandNode(rname, cmdname, args, ln('cmd%d' % i))
    nodes = [pp.CommandNode('X', 'Node', [], ln('cmdX')), command(0), command(1)]
    if fault == 'duplicate-result':
        where = 1
    vals = list(lines.values())
    ctx.assume(z3.Distinct(*[v.e for v in vals]))
    for v in vals:
        ctx.assume(v.e >= 1)
    tree = pp.ProgramNode(nodes, 3)

    class StubParser(object):
        def parse(self, source):
            return tree
    old = PR.Parser
    PR.Parser = StubParser
    err = None
    try:
        try:
            p = PR.Program.from_source('stub', libraries=LIBS)
            p.run()
        except E.MPilotError as e:
            err = e
    finally:
        PR.Parser = old
    want_tag = {'unknown-command': 'cmd%d', 'duplicate-result': 'cmd%d', 'missing-required': 'cmd%d', 'undeclared-parameter': 'Bogus%d',
                'bad-direct-reference': 'D%d', 'bad-list-element': 'L%d', 'bad-nested-element': 'NL%d', 'not-a-list': 'L%d', 'bad-metadata': 'Meta%d'}[fault] % where
    # for a value spread over several lines the line of the argument name, of the value and of the offending element all locate the fault
    also = {'bad-list-element': ['L%d.v', 'L%d.1'], 'bad-nested-element': ['NL%d.v', 'NL%d.1', 'NL%d.10'], 'not-a-list': ['L%d.v'], 'bad-direct-reference': ['D%d.v'],
            'bad-metadata': ['Meta%d.v'], 'undeclared-parameter': ['Bogus%d.v']}.get(fault, [])
    accept = [lines[want_tag]] + [lines[t % where] for t in also if (t % where) in lines]
    obs, groups = [], {}
    lab = 'the fault %s is reported' % fault
    obs.append((lab, z3.BoolVal(err is not None)))
    groups[lab] = 'error-missing ' + fault
    if err is not None:
        got = getattr(err, 'lineno', None)
        lab = 'the %s error (%s) carries the line of the offending %s' % (fault, type(err).__name__, 'command' if want_tag.startswith('cmd') else 'argument')
        obs.append((lab, z3.Or(*[symx.lift(got) == a.e for a in accept]) if got is not None else z3.BoolVal(False)))
        groups[lab] = 'error-lineno ' + fault
    return {'outcome': type(err).__name__ if err else 'no-error', 'obligations': obs, 'groups': groups, 'replay': {'kind': 'errors', 'fault': fault, 'where': where}, 'validated': True}


# ------------------------------------------------------------------ (4) the line the command-line tool marks
def cli_harness(ctx, cfg):
    """a model file with solver-chosen leading blank lines, line endings and fault position runs through the real
    CLI entry point; the line marked with --> must be the physical line of the offending command / argument"""
    import io
    import os
    cli = sys.modules.get('mpilot.cli.mpilot')
    if cli is None:
        import mpilot.cli.mpilot as cli
    lead = ctx.choice('leading_blank_lines', 3)
    lead_kind = ctx.choice('leading_kind', 2)         # completely empty lines or lines holding blanks
    nl = ['\n', '\r\n', '\r', 'mixed'][ctx.choice('nl', 4)]         # mixed: line feeds and bare carriage returns alternate
    prior = ctx.choice('earlier_cli_run', 3)           # what the same process ran before: nothing / a file with a syntax error on line 4 / a file with a load error
    fault = ['missing-result', 'unknown-command', 'undeclared-parameter', 'bad-list-element', 'dependency-error-without-line'][ctx.choice('fault', 5)]
    gap = ctx.choice('gap', 2)
    lines = [('' if lead_kind == 0 else '   ') for _ in range(lead)]
    exotic = ['', ' page\x0cbreak', ' sep\u2028arator', ' vt\x0b nel\x85'][ctx.choice('exotic_comment', 4)]
    lines += ['# model' + exotic, 'X = Node()']
    lines += [''] * gap
    lines.append('Y = Node(')
    lines.append('    D = X,')
    if fault == 'missing-result':
        lines.append('    D2 = Nope')
        want = len(lines)
    elif fault == 'undeclared-parameter':
        lines.append('    Bogus = 1')
        want = len(lines)
    elif fault == 'bad-list-element':
        lines.append('    L = [X,')
        want_alt = len(lines)
        lines.append('         Nope]')
        want = len(lines)
    else:
        lines.append('    D2 = X')
        want = None
    lines.append(')')
    if fault == 'dependency-error-without-line':
        # the reader of an EMPTY file fails with an error that has no line of its own; it is run because a LATER command
        # needs its result: no line, or the reader's line, may be marked - never the later command's
        empty = os.path.join(P.SCRATCH, 'c11-empty-%d.csv' % os.getpid())
        open(empty, 'w').close()
        lines.append('A = EEMSRead(InFileName = "%s", InFieldName = A)' % empty)
        want = len(lines)
        lines.append('')
        lines.append('T = Copy(InFieldName = A)')
    if fault == 'unknown-command':
        lines.append('Z = NoSuchCommand(D = X)')
        want = len(lines)
    lines.append('# end')
    path = os.path.join(P.SCRATCH, 'c11-cli-%d.mpt' % os.getpid())

    def joined(ls):
        if nl != 'mixed':
            return nl.join(ls) + nl
        return ''.join(l_ + ('\n' if i % 2 == 0 else '\r') for i, l_ in enumerate(ls))
    if prior:
        ppath = os.path.join(P.SCRATCH, 'c11-cli-prior-%d.mpt' % os.getpid())
        ptext = ['# earlier model', 'READ(InFileName = a.csv, InFieldName = A)', '', 'B = Node(D = = A)', '# end'] if prior == 1 else ['', '', 'Q = NoSuchCommand()', '']
        with open(ppath, 'w', newline='', encoding='utf-8') as f:
            f.write('\n'.join(ptext) + '\n')
        sink = io.StringIO()
        old_err = sys.stderr
        sys.stderr = sink
        try:
            try:
                cli.main.callback('eems-csv', ppath, ('mpvnodes',))
            except BaseException:       # noqa: B902  (SystemExit of the earlier run)
                pass
        finally:
            sys.stderr = old_err
    with open(path, 'w', newline='', encoding='utf-8') as f:
        f.write(joined(lines))
    err, status = io.StringIO(), None
    old_err = sys.stderr
    sys.stderr = err
    try:
        try:
            cli.main.callback('eems-csv', path, ('mpvnodes',))
            status = 0
        except SystemExit as e:
            status = e.code
        except Exception as e:      # noqa: B902
            status = 'escaped:' + type(e).__name__
    finally:
        sys.stderr = old_err
    text = err.getvalue()
    marked = [l_[4:] for l_ in text.split('\n') if l_.startswith('--> ')]
    accept = {lines[want - 1]}
    if fault == 'bad-list-element':
        accept.add(lines[want_alt - 1])     # the argument line or the element line both locate the fault
    marker_ok = len(marked) == 1 and marked[0] in accept
    if fault == 'dependency-error-without-line':
        marker_ok = marker_ok or not marked
    obs = [('the tool reports the fault (status %r)' % (status,), z3.BoolVal(isinstance(status, int) and status != 0)),
           ('exactly one line is marked and it is the offending line %d%s (marked: %r)' % (want, ' - or none, for an error without a line' if fault == 'dependency-error-without-line' else '', marked), z3.BoolVal(marker_ok))]
    groups = {obs[0][0]: 'cli-status', obs[1][0]: 'cli-marker ' + fault}
    rec = {'kind': 'cli', 'lines': lines, 'nl': nl, 'want': want, 'marked': marked, 'earlier_cli_run': prior}
    return {'outcome': fault, 'obligations': obs, 'groups': groups, 'replay': rec, 'validated': True}


def harness(ctx, cfg):
    if cfg['kind'] == 'cli':
        return cli_harness(ctx, cfg)
    return {'newline': newline_harness, 'newline-token': newline_token_harness, 'layout': layout_harness, 'errors': errors_harness}[cfg['kind']](ctx, cfg)


def confirm(rec, label):
    k = rec.get('kind')
    if k == 'newline':
        toks, end = real_newline(rec)
        want = rec['before'] + logical_breaks(rec['run'])
        return end != want, 'real lexer: line counter %d -> %d after the run %r (true line breaks: %d)' % (rec['before'], end, rec['run'], logical_breaks(rec['run']))
    if k == 'lemma':
        live = lexenc.Live()
        toks, end = live.scan(rec['w'] + rec['rest'])
        e = live.greedy_end(rec['rule'], rec['w'] + rec['rest'])
        return e != len(rec['w']), 'real re match of %s on %r ends at %s (lexeme length %d)' % (rec['rule'], rec['w'] + rec['rest'], e, len(rec['w']))
    if k == 'layout' and 'expected' not in rec:
        pp = sys.modules['mpilot.parser.parser']
        try:
            pp.Parser().parse(rec['text'])
        except SyntaxError as e:
            return True, 'a fresh Parser rejects the rendered program %r: %s' % (rec['text'][:80], e)
        return False, 'parses on a fresh parser'
    if k == 'layout':
        bad, version = real_layout(rec)
        return bool(bad) or version != 3, 'second parse on one Parser object: wrong lines %s, version %s' % (bad[:3], version)
    return True, 'the explored path executed the real loader'


def run_job(cfg, seed):
    return P.run_struct_job(harness, cfg, PROP, seed, confirm=confirm, max_paths=cfg.get('max_paths', 60000))


def replay(rec):
    ok, why = confirm(rec['record'], rec.get('label'))
    return {'reproduced': ok, 'why': why}


def describe(tier):
    return {
        'level': 'model_checking',
        'functions': ['mpilot/parser/parser.py: Lexer.t_newline, token rules (live master regex), Parser.parse, node constructors p_command / p_argument / p_expression',
                      'mpilot/program.py: from_source (lineno threading), add_command, run pre-pass', 'mpilot/commands.py, mpilot/params.py: lineno passed to every raised error'],
        'bounds': {'quick': 'line-break runs of <=3 characters over {CR, LF} with a symbolic counter; programs of 2 commands x 3 layout styles x 0-2 blank/comment lines before each element x trailing comments x {LF, CRLF, CR} '
                            'x a symbolic stale line counter and either value of the sticky EEMS-2 flag (arbitrary parse history in one step); 9 fault kinds x 2 positions with all 30+ node line numbers distinct symbolic integers',
                   'thorough': 'runs of <=4 characters; 3 commands: all ~72 000 layouts per line-break style and prior parser state (3 pinned slices each)'},
        'outside': ['the CLI marker arithmetic (C13)', 'layouts beyond the rendered family', 'column positions'],
        'assumptions': ['A-lex: greedy match of the newline rule = longest match (checked with re.match on witnesses)', 'S-parser: for error linenos the loader is fed a stub parse tree with symbolic line numbers',
                        'the harness library mpv/nodes/mpvnodes.py provides the commands Node and Strict'],
    }
