"""C05 -- results keep the input shape; cells are computed independently (equivariance under common
permutations / reshapes of the input cells)."""
import json

import z3

from .. import datacmd as D

PROP = 'C05'
SORTING = ('FuzzyXOr', 'FuzzySelectedUnion')


def boot(scratch):
    D.boot(scratch)


def cost_class(sp):
    if 'CurveZScore' in sp.name:
        return 'heavy'
    if sp.name in SORTING or any(p.name == 'IgnoreZeros' for p in sp.params):
        return 'mid'
    return 'cheap'


def plan(tier, seed):
    jobs = []
    for sp in D.command_specs_cached().values():
        nary = any(p.kind == 'arrlist' for p in sp.params)
        has_sel = any(p.name == 'NumberToConsider' for p in sp.params)
        cc = cost_class(sp)
        k = 2 if nary else 1
        variants = D.default_variants(sp, 'quick')
        # one variant per string/bool choice, optional numbers given (shape behaviour does not depend on them)
        variants = [v for v in variants if not [o for o in v.get('omit', []) if o not in ('Direction',)]] or variants[:1]
        for var in variants:
            base = dict(var, cmd=sp.name, k=k, reps='m', kinds='f', pts=2, sel=(2 if has_sel else 1))
            # ---- (a) shape preservation on rank 1-3 shapes incl. length-1 axes
            if tier == 'quick':
                shapes = {'cheap': [[1, 2], [2, 1], [2, 2], [1, 2, 1]], 'mid': [[1, 2], [2, 1], [2, 2], [1, 1, 2]], 'heavy': [[1, 2], [2, 1]]}[cc]
            else:
                shapes = {'cheap': [[1, 3], [3, 1], [2, 2], [1, 2, 2], [2, 1, 2], [4], [1]], 'mid': [[1, 2], [2, 1], [2, 2], [1, 2, 1], [3]],
                          'heavy': [[1, 2], [2, 1], [1, 1, 2]]}[cc]
            for shp in shapes:
                jobs.append(dict(base, kind='shape', shape=shp))
                if has_sel:
                    jobs.append(dict(base, kind='shape', shape=shp, sel=1))
            # ---- (b) equivariance under adjacent transpositions of the flattened cells
            stat = sp.name in D.STAT_CMDS or sp.name == 'CvtToFuzzy'
            n = 3 if (stat and cc != 'heavy') else 2
            if tier == 'thorough' and cc == 'cheap':
                n = 4 if not stat else 3
            if cc == 'mid' and sp.name in SORTING:
                n = 3       # cells != inputs: a layer/cell mix-up cannot hide behind a square stack
            if tier == 'thorough' and cc == 'mid':
                n = 3
            for t in range(n - 1):
                jobs.append(dict(base, kind='perm', shape=[n], t=t))
            # ---- (c) equivariance under reshapes vector <-> grid
            rs = [([2], [1, 2]), ([2], [2, 1])]
            if sp.name in SORTING:
                rs.append(([4], [2, 2]))      # a grid with interior cells: layer/cell mix-ups cannot hide
            if tier == 'thorough' and cc != 'heavy':
                rs += [([4], [2, 2]), ([2], [1, 2, 1])] if cc == 'cheap' else [([2], [1, 1, 2]), ([3], [1, 3])]
            if stat and cc != 'heavy':
                rs = [([3], [1, 3]), ([3], [3, 1])] + (rs[2:] if tier == 'thorough' else [])
            for a, b in rs:
                jobs.append(dict(base, kind='reshape', shape=a, shape2=b))
            # ---- (d) memory layout: the same grid stored column-major (a transposed raster, a Fortran-ordered file) gives
            # the result of the row-major grid - flat views / ravel() of such arrays are copies, order='K' walks memory order
            if cc != 'heavy':
                jobs.append(dict(base, kind='reshape', shape=[2, 2], shape2=[2, 2], layout='F'))
                if tier == 'thorough' and cc == 'cheap':
                    jobs.append(dict(base, kind='reshape', shape=[3, 2], shape2=[3, 2], layout='F'))
    seen, out = set(), []
    for j in jobs:
        key = json.dumps(j, sort_keys=True)
        if key not in seen:
            seen.add(key)
            out.append(j)
    return out


def transformed_inputs(kw, fn, shape2):
    """second set of inputs: every array input rearranged by fn (list of flat source indices) into shape2"""
    given = {}
    for h in D.arrays_of(kw):
        d, m, rep = D.arr_cells(h.arr)
        d2 = [d[i] for i in fn]
        m2 = [m[i] for i in fn] if m is not None else None
        given[h.name] = D.derived_array(h.name + '~', d2, m2, shape2, h.arr.kind, rep=('nd' if rep == 'nd' else None), fuzzy=h.fuzzy)
    kw2 = {}
    for k_, v in kw.items():
        if isinstance(v, D.Holder):
            kw2[k_] = given[v.name]
        elif isinstance(v, list) and v and isinstance(v[0], D.Holder):
            kw2[k_] = [given[h.name] for h in v]
        else:
            kw2[k_] = v
    return kw2


def scenario(ctx, cfg):
    sp = D.command_specs_cached()[cfg['cmd']]
    kw = D.build_kwargs(ctx, sp, cfg, fuzzy_pre=True)
    kind = cfg['kind']
    if kind != 'shape':
        D.assume_preconditions(ctx, sp, kw, cfg)      # constant / all-missing fields are inside the shape claim
    shape = tuple(cfg['shape'])
    n = D.ncells(shape)
    if kind == 'shape':
        r = D.run_cmd(ctx, sp.name, kw)
        obs = []
        if r.outcome == 'ok':
            obs.append(D.fact_ob('result shape equals input shape', ('shape_is', 0, list(shape)), group='shape'))
        else:
            obs.append(D.fact_ob('same-shaped inputs of rank %d are accepted' % len(shape), ('declared_outcome', 0), group='shape-outcome'))
        return obs + D.inputs_unchanged_obs(r)
    if kind == 'perm':
        t = cfg['t']
        fn = list(range(n))
        fn[t], fn[t + 1] = fn[t + 1], fn[t]
        kw2 = transformed_inputs(kw, fn, shape)
        r0 = D.run_cmd(ctx, sp.name, kw)
        r1 = D.run_cmd(ctx, sp.name, kw2)
        obs = [D.fact_ob('same outcome for the rearranged inputs', ('same_outcome', 0, 1), group='perm-outcome'),
               D.fact_ob('same result shape', ('same_shape', 0, 1), group='perm-shape')]
        # cell i of the second run corresponds to cell fn[i] of the first
        # (the rearranged inputs stand for views of the same fields: the first run must have left them alone)
        return obs + D.inputs_unchanged_obs(r0) + D.equal_results_obs(r0, r1, 'cells %d,%d swapped in all inputs' % (t, t + 1), 'perm', perm=fn)
    if kind == 'reshape':
        shape2 = tuple(cfg['shape2'])
        fn = list(range(n))
        kw2 = transformed_inputs(kw, fn, shape2)
        r0 = D.run_cmd(ctx, sp.name, kw)
        r1 = D.run_cmd(ctx, sp.name, kw2)
        obs = [D.fact_ob('same outcome for the reshaped inputs', ('same_outcome', 0, 1), group='reshape-outcome')]
        if r0.outcome == 'ok':
            obs.append(D.fact_ob('result shape equals input shape', ('shape_is', 0, list(shape)), group='shape'))
        if r1.outcome == 'ok':
            obs.append(D.fact_ob('result shape equals input shape', ('shape_is', 1, list(shape2)), group='shape'))
        return obs + D.inputs_unchanged_obs(r0) + D.equal_results_obs(r0, r1, 'inputs reshaped %s -> %s' % (list(shape), list(shape2)), 'reshape')
    raise ValueError(kind)


def run_job(cfg, seed):
    return D.run_scenario_job(scenario, cfg, PROP, seed, max_paths=cfg.get('max_paths', 20000))


def replay(rec):
    return D.replay_record(rec)


def describe(tier):
    return {
        'level': 'model_checking',
        'functions': ['execute() of every data command of basic.py / fuzzy.py: ' + ', '.join(D.command_specs_cached()),
                      'mpilot/libraries/eems/mixins.py: validate_array_shapes', 'mpilot/utils.py: insure_fuzzy, make_masked'],
        'bounds': {
            'quick': 'shapes (1,2) (2,1) (2,2) (1,2,1) [sorting / mean-to-mid commands: (1,2) (2,1) (1,1,2); CurveZScore: (1,2) (2,1)], 2 inputs for n-ary commands; '
                     'equivariance: every adjacent transposition of 2 cells (3 for statistic-driven commands) applied to all inputs, and reshapes (n,)->(1,n),(n,1); all mask placements symbolic',
            'thorough': 'adds shapes (1,3) (3,1) (1,2,2) (2,1,2) (4,) (1,), transpositions on 3-4 cells, reshapes (4,)->(2,2), (2,)->(1,2,1)',
        },
        'outside': ['more than 4 cells / rank > 3 (column-major grids: (2,2), thorough (3,2))', 'IEEE rounding', 'strided (non-contiguous) views; the memory layout of INTERMEDIATE results (row-major in the stand-in; mismatches are reported by the per-path validation)', 'arbitrary permutations are covered through adjacent transpositions (they generate the symmetric group); composition is a meta-argument'],
        'assumptions': D.STUBS + ['A-pre as in C03/C08 (fuzzy range, >=2 distinct valid values for statistic-driven commands)',
                                  'equivariance is a relational query: the command runs on X and on sigma(X) in one path and result2 == sigma(result1) is proved on masks and non-missing values'],
    }
