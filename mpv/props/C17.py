"""C17 -- CSV reading and writing are faithful (logic of csv/io.py under stubs; text<->double conversion outside).

The real EEMSRead.execute / EEMSWrite.execute run on the symbolic numpy with `open` and `csv` in
mpilot/libraries/eems/csv/io.py replaced by stubs: the reader hands back a SYMBOLIC TABLE (row emptiness, per-cell
"is numeric" flag and numeric value symbolic), the writer records the rows it is given."""
import sys
import collections

import z3

from .. import datacmd as D
from .. import symx
from ..symx import SymNum

PROP = 'C17'
TABLE = {}
WRITTEN = []


class _File(object):
    def __init__(self, mode):
        self.mode = mode

    def readlines(self):
        return TABLE['rows']

    def __enter__(self):
        return self

    def __exit__(self, *a):
        return False

    def write(self, s):
        WRITTEN.append(('raw', s))


def _open(path, mode='r', *a, **k):
    TABLE.setdefault('opened', []).append((path, mode))
    return _File(mode)


class _Writer(object):
    def writerow(self, row):
        WRITTEN.append(list(row))

    def writerows(self, rows):
        for r in rows:
            WRITTEN.append(list(r))


class _Csv(object):
    @staticmethod
    def reader(lines):
        return iter(lines)         # the stub table already is a list of rows (lists of cells)

    @staticmethod
    def writer(f, **kw):
        return _Writer()


def boot(scratch):
    D.boot(scratch)
    import mpilot.libraries.eems.csv.io as cio
    cio.open = _open
    cio.csv = _Csv
    cio.float = symx.FloatShadow
    cio.int = symx.IntShadow
    D.MODS['cio'] = cio


def plan(tier, seed):
    jobs = []
    rows = (1, 2, 3) if tier == 'quick' else (1, 2, 3, 4)
    for r in rows:
        for dt in ('default', 'float', 'int'):
            for missing in (False, True):
                jobs.append(dict(kind='read', rows=r, cols=2, dtype=dt, missing=missing, col=(r + (1 if missing else 0)) % 2))
    jobs.append(dict(kind='read', rows=2, cols=3, dtype='float', missing=True, col=1))
    jobs += [dict(kind='read-errors', rows=r) for r in (0, 1, 2)]
    jobs += [dict(kind='write', k=k, n=n, reps=rp, kinds=kd) for k in (1, 2, 3) for n in (1, 2) for rp in ('n', 'm') for kd in (('f',) if k == 1 else ('f', 'if', 'fi'))]
    jobs.append(dict(kind='floats'))
    return jobs


def read_harness(ctx, cfg):
    cio = D.MODS['cio']
    E = sys.modules['mpilot.libraries.eems.exceptions']
    nrows, ncols, col = cfg['rows'], cfg['cols'], cfg['col']
    names = ['A', 'B', 'C'][:ncols]
    rows = [list(names)]
    vals = []
    blanks = []
    for r in range(nrows):
        blank = ctx.decide(ctx.bool('row%d.blank' % r))
        blanks.append(blank)
        if blank:
            rows.append([])
            continue
        cells = []
        for c in range(ncols):
            v = SymNum(ctx.real('cell%d.%d' % (r, c)), 'f')
            cells.append(v)
        rows.append(cells)
        vals.append(cells)
    TABLE.clear()
    TABLE['rows'] = rows
    kw = {'InFileName': '/data/in.csv', 'InFieldName': names[col]}
    mv = None
    if cfg['missing']:
        mv = SymNum(ctx.real('MissingVal'), 'f')
        kw['MissingVal'] = mv
    if cfg['dtype'] == 'float':
        kw['DataType'] = symx.FloatShadow      # what DataTypeParameter hands over (float), in its symbolic-aware form
    elif cfg['dtype'] == 'int':
        kw['DataType'] = symx.IntShadow
    is_int = cfg['dtype'] == 'int'
    try:
        res = cio.EEMSRead('r').execute(**kw)
        oc = 'ok'
    except E.InvalidDataFile as e:
        res, oc = None, 'InvalidDataFile'
    except (symx.Abort, symx.Outside, symx.Inconclusive):
        raise
    except Exception as e:      # noqa: B902
        res, oc = None, 'exc:' + type(e).__name__
    obs, groups = [], {}

    def ob(label, term, group):
        obs.append((label, term if z3.is_expr(term) else z3.BoolVal(bool(term))))
        groups[label] = group
    ob('a well-formed numeric table is read (%s)' % oc, oc == 'ok', 'read-outcome')
    if oc == 'ok':
        ok = isinstance(res, D.symnp.MaskedArray) and res.size == len(vals)
        ob('the column comes back as a masked array with one cell per non-blank row', ok, 'read-shape')
        ob('the element type is the requested one', res.kind == ('i' if is_int else 'f') if ok else False, 'read-dtype')
        if ok:
            cells = res.data.cells()
            masks = res.maskcells()
            for i, row in enumerate(vals):
                x = row[col].e
                want = symx.trunc_term(x) if is_int else x
                ob('row %d: the value of the requested column, in row order%s' % (i, ' (truncated to an integer)' if is_int else ''), cells[i] == want, 'read-value')
                if mv is not None:
                    mterm = symx.trunc_term(mv.e) if is_int else mv.e
                    ob('row %d: missing exactly when the cell equals the declared missing value' % i, masks[i] == (want == mterm), 'read-mask')
                else:
                    ob('row %d: not missing when no missing value is declared' % i, z3.Not(masks[i]), 'read-mask')
            ob('only the file given is opened, for reading', TABLE.get('opened') == [('/data/in.csv', 'r')], 'read-open')

    def conc(m, label):
        t = []
        for r_ in rows[1:]:
            t.append([float(symx.model_value(m, c.e)) for c in r_])
        return {'kind': 'read', 'header': names, 'rows': t, 'field': names[col], 'missing': float(symx.model_value(m, mv.e)) if mv is not None else None, 'dtype': cfg['dtype']}
    return {'outcome': oc, 'obligations': obs, 'groups': groups, 'concretise': conc, 'replay': {'kind': 'read'}, 'path_check': lambda m: check_read(conc(m, None), res, m)}


def real_read(rec):
    """the real command with the real csv module and the real numpy (subprocess worker) on a real file"""
    import os
    import json
    path = os.path.join(D.SCRATCH, 'c17-%d.csv' % os.getpid())
    with open(path, 'w') as f:
        f.write(','.join(rec['header']) + '\n')
        for r in rec['rows']:
            f.write(','.join(repr(x) for x in r) + '\n')
    src = 'R = EEMSRead(InFileName = "%s", InFieldName = %s%s%s)\n' % (
        path, rec['field'], (', MissingVal = %r' % rec['missing']) if rec['missing'] is not None else '',
        {'default': '', 'float': ', DataType = Float', 'int': ', DataType = Integer'}[rec['dtype']])
    rep = D.WORKER.ask({'program': src, 'inputs': {}, 'libraries': ['mpilot.libraries.eems.basic', 'mpilot.libraries.eems.csv', 'mpilot.libraries.eems.fuzzy']})
    return rep


def check_read(rec, res, m):
    rep = real_read(rec)
    if not rep.get('ok'):
        return res is None, 'real run failed: %s %s' % (rep.get('exc'), rep.get('msg', '')[:100])
    rr = rep['results']['R']
    if res is None:
        return False, 'symbolic run failed but the real run succeeded'
    sm = [bool(symx.model_value(m, t)) for t in res.maskcells()]
    sv = [float(symx.model_value(m, t)) for t in res.data.cells()]
    ok = rr['shape'] == [len(sv)] and (rr['mask'] or [False] * len(sv)) == sm and all(mk or D.close(a, b) for a, b, mk in zip(sv, rr['data'], sm)) \
        and {'f': 'f', 'i': 'i'}.get(rr['kind']) == res.kind
    return ok, 'symbolic %s/%s vs real %s/%s (%s)' % (sv, sm, rr['data'], rr['mask'], rr['kind'])


def read_errors_harness(ctx, cfg):
    cio = D.MODS['cio']
    E = sys.modules['mpilot.libraries.eems.exceptions']
    nrows = cfg['rows']
    header_case = ctx.choice('header', 3)       # 0: present, 1: other names, 2: file completely empty
    rows = [] if header_case == 2 else [['A', 'B'] if header_case == 0 else ['X', 'Y']]
    badrow = None
    physical = 1
    bad_line = None
    for r in range(nrows):
        kind = ctx.choice('row%d' % r, 4)       # 0 numeric, 1 blank line, 2 non-numeric cell in the column, 3 non-numeric cell in ANOTHER column
        physical += 1
        if kind == 1:
            rows.append([])
        elif kind == 2:
            rows.append(['abc', SymNum(ctx.real('o%d' % r), 'f')])
            if bad_line is None:
                bad_line = physical
        elif kind == 3:
            rows.append([SymNum(ctx.real('v%d' % r), 'f'), 'n/a'])
        else:
            rows.append([SymNum(ctx.real('v%d' % r), 'f'), SymNum(ctx.real('w%d' % r), 'f')])
    TABLE.clear()
    TABLE['rows'] = rows
    try:
        cio.EEMSRead('r').execute(InFileName='/data/in.csv', InFieldName='A')
        oc, msg = 'ok', ''
    except E.EmptyDataFile as e:
        oc, msg = 'EmptyDataFile', str(e)
    except E.InvalidDataFile as e:
        oc, msg = 'InvalidDataFile', str(e)
    except (symx.Abort, symx.Outside, symx.Inconclusive):
        raise
    except Exception as e:      # noqa: B902
        oc, msg = 'exc:' + type(e).__name__, ''
    obs, groups = [], {}
    if header_case == 2:
        want = 'EmptyDataFile' if nrows == 0 or not rows else 'InvalidDataFile'      # without a header line the first data row is taken for it
    elif header_case == 1:
        want = 'InvalidDataFile'
    elif bad_line is not None:
        want = 'InvalidDataFile'
    else:
        want = 'ok'
    lab = 'outcome %s as documented (%s)' % (want, oc)
    obs.append((lab, z3.BoolVal(oc == want)))
    groups[lab] = 'read-error-class'
    if want == 'InvalidDataFile' and oc == want and header_case == 0:
        lab = 'the message names physical line %d of the file (blank lines counted): %r' % (bad_line, msg[:90])
        obs.append((lab, z3.BoolVal(('line %d.' % bad_line) in msg or ('line %d ' % bad_line) in msg)))
        groups[lab] = 'read-error-line'
    if want == 'InvalidDataFile' and oc == want and header_case == 1:
        lab = 'a missing header is reported as such'
        obs.append((lab, z3.BoolVal('header' in msg)))
        groups[lab] = 'read-error-header'
    return {'outcome': oc, 'obligations': obs, 'groups': groups, 'replay': {'kind': 'read-errors', 'rows': [[str(c) for c in r] for r in rows]}, 'validated': True}


def write_harness(ctx, cfg):
    cio = D.MODS['cio']
    k, n = cfg['k'], cfg['n']
    rep = D.REPS[cfg['reps']]
    kd = cfg.get('kinds', 'f')
    hs = [D.sym_array(ctx, 'col%d' % j, (n,), kd[j] if j < len(kd) else kd[-1], rep, False) for j in range(k)]
    for j, h in enumerate(hs):
        h.command.result_name = ['Alpha', 'Beta', 'Gamma'][j]
    order = list(range(k))
    if k > 1 and ctx.choice('order', 2):
        order.reverse()
    pre = [D.arr_cells(h.arr) for h in hs]
    pre = [(list(d), list(m) if m is not None else None) for d, m, _ in pre]
    del WRITTEN[:]
    TABLE.clear()
    try:
        cio.EEMSWrite('w').execute(OutFileName='/data/out.csv', OutFieldNames=[hs[j].command for j in order])
        oc = 'ok'
    except (symx.Abort, symx.Outside, symx.Inconclusive):
        raise
    except Exception as e:      # noqa: B902
        oc = 'exc:' + type(e).__name__
    obs, groups = [], {}

    def ob(label, term, group):
        obs.append((label, term if z3.is_expr(term) else z3.BoolVal(bool(term))))
        groups[label] = group
    ob('writing succeeds (%s)' % oc, oc == 'ok', 'write-outcome')
    # the written results themselves are left as they were (other commands read them afterwards)
    for j, h in enumerate(hs):
        d2, m2, _ = D.arr_cells(h.arr)
        d0, m0 = pre[j]
        for r in range(n):
            mk0 = m0[r] if m0 is not None else z3.BoolVal(False)
            mk2 = m2[r] if m2 is not None else z3.BoolVal(False)
            ob('%s cell %d: missing before <=> missing after the write' % (h.command.result_name, r), mk2 == mk0, 'write-input-mask')
            ob('%s cell %d: non-missing value unchanged by the write' % (h.command.result_name, r), z3.Or(mk0, d2[r] == d0[r]), 'write-input-value')
    if oc == 'ok':
        ob('the file is opened for writing', TABLE.get('opened') == [('/data/out.csv', 'w')], 'write-open')
        ob('header + one row per cell', len(WRITTEN) == n + 1, 'write-rows')
        ob('the header lists the result names in the listed order', WRITTEN and WRITTEN[0] == [['Alpha', 'Beta', 'Gamma'][j] for j in order], 'write-header')
        if len(WRITTEN) == n + 1:
            for r in range(n):
                row = WRITTEN[r + 1]
                ob('row %d has one cell per result' % r, len(row) == k, 'write-rows')
                if len(row) == k:
                    for c, j in enumerate(order):
                        d, m, _ = D.arr_cells(hs[j].arr)
                        cell = row[c]
                        mk = m[r] if m is not None else z3.BoolVal(False)
                        if cell is D.symnp.masked:
                            ob('row %d, %s: only a missing cell is written as missing' % (r, hs[j].command.result_name), mk, 'write-missing-marker')
                            ob('row %d, %s: a missing cell is written in a form the reader accepts (it is written as "--")' % (r, hs[j].command.result_name), z3.Not(mk), 'write-missing-unreadable')
                        else:
                            ob('row %d, %s: the written number is the cell value' % (r, hs[j].command.result_name), z3.Or(mk, symx.lift(cell) == d[r]), 'write-value')
    return {'outcome': oc, 'obligations': obs, 'groups': groups, 'replay': {'kind': 'write', 'k': k, 'n': n, 'reps': cfg['reps']}, 'validated': True,
            'concretise': lambda m, l: {'kind': 'write', 'k': k, 'n': n, 'reps': cfg['reps']}}


def floats_harness(ctx, cfg):
    """outside the solver's reach (C-level dtoa/strtod): a concrete write -> read trip of extreme doubles through the
    real csv module and real numpy, reported as supplementary evidence"""
    import os
    xs = [0.0, -0.0, 5e-324, 2.2250738585072014e-308, 1.7976931348623157e+308, 0.1, 1 / 3.0, 1e22, 9007199254740993.0, -123.456e-7, 1e-05]
    path_in = os.path.join(D.SCRATCH, 'c17f-%d.csv' % os.getpid())
    path_out = os.path.join(D.SCRATCH, 'c17g-%d.csv' % os.getpid())
    with open(path_in, 'w') as f:
        f.write('A\n' + '\n'.join(repr(x) for x in xs) + '\n')
    src = ('A = EEMSRead(InFileName = "%s", InFieldName = A)\nW = EEMSWrite(OutFileName = "%s", OutFieldNames = [A])\n' % (path_in, path_out))
    libs = ['mpilot.libraries.eems.basic', 'mpilot.libraries.eems.csv', 'mpilot.libraries.eems.fuzzy']
    rep = D.WORKER.ask({'program': src, 'inputs': {}, 'libraries': libs})
    ok = bool(rep.get('ok'))
    back = None
    if ok:
        rep2 = D.WORKER.ask({'program': 'A = EEMSRead(InFileName = "%s", InFieldName = A)\n' % path_out, 'inputs': {}, 'libraries': libs})
        ok = bool(rep2.get('ok'))
        if ok:
            back = rep2['results']['A']['data']
    import struct
    same = ok and back is not None and len(back) == len(xs) and all(struct.pack('>d', a) == struct.pack('>d', b) for a, b in zip(back, xs))
    lab = 'extreme doubles survive write + read bit for bit (%s)' % (back if not same else 'ok')
    return {'outcome': 'floats', 'obligations': [(lab, z3.BoolVal(bool(same)))], 'groups': {lab: 'float-text-roundtrip'}, 'replay': {'kind': 'floats', 'values': [repr(x) for x in xs]}, 'validated': True}


def harness(ctx, cfg):
    return {'read': read_harness, 'read-errors': read_errors_harness, 'write': write_harness, 'floats': floats_harness}[cfg['kind']](ctx, cfg)


def confirm(rec, label):
    k = rec.get('kind')
    if k == 'read':
        rep = real_read(rec)
        D.WORKER.close()
        if not rep.get('ok'):
            return True, 'real run failed: %s %s' % (rep.get('exc'), rep.get('msg', '')[:120])
        rr = rep['results']['R']
        col = rec['header'].index(rec['field'])
        want = [r[col] for r in rec['rows'] if r]
        if rec['dtype'] == 'int':
            want = [float(int(x)) for x in want]
        mv = rec['missing']
        wm = [(x == (float(int(mv)) if rec['dtype'] == 'int' else mv)) if mv is not None else False for x in want]
        gm = rr['mask'] or [False] * len(rr['data'])
        bad = rr['shape'] != [len(want)] or gm != wm or any((not m) and not D.close(a, b) for a, b, m in zip(want, rr['data'], wm)) or \
            {'f': 'f', 'i': 'i'}.get(rr['kind']) != ('i' if rec['dtype'] == 'int' else 'f')
        return bad, 'real EEMSRead on %s -> data %s mask %s kind %s; documented: %s / %s' % (rec['rows'], rr['data'], rr['mask'], rr['kind'], want, wm)
    if k == 'write':
        import os
        path_in = os.path.join(D.SCRATCH, 'c17w-%d.csv' % os.getpid())
        path_out = os.path.join(D.SCRATCH, 'c17x-%d.csv' % os.getpid())
        with open(path_in, 'w') as f:
            f.write('A\n1.5\n-9999\n')
        libs = ['mpilot.libraries.eems.basic', 'mpilot.libraries.eems.csv', 'mpilot.libraries.eems.fuzzy']
        src = 'A = EEMSRead(InFileName = "%s", InFieldName = A, MissingVal = -9999)\nW = EEMSWrite(OutFileName = "%s", OutFieldNames = [A])\n' % (path_in, path_out)
        rep = D.WORKER.ask({'program': src, 'inputs': {}, 'libraries': libs})
        rep2 = D.WORKER.ask({'program': 'A = EEMSRead(InFileName = "%s", InFieldName = A)\n' % path_out, 'inputs': {}, 'libraries': libs})
        D.WORKER.close()
        text = open(path_out).read() if os.path.exists(path_out) else ''
        return (not rep2.get('ok')), 'real write of a column with a missing cell produced %r; reading it back: %s' % (text, 'ok' if rep2.get('ok') else rep2.get('exc'))
    return True, 'executed on the real code'


def run_job(cfg, seed):
    from .. import progx as P
    try:
        return P.run_struct_job(harness, cfg, PROP, seed, confirm=confirm, max_paths=cfg.get('max_paths', 20000))
    finally:
        D.WORKER.close()


def replay(rec):
    ok, why = confirm(rec['record'], rec.get('label'))
    return {'reproduced': ok, 'why': why}


def describe(tier):
    return {
        'level': 'model_checking',
        'functions': ['mpilot/libraries/eems/csv/io.py: EEMSRead.execute, EEMSWrite.execute'],
        'bounds': {'quick': 'tables of 1-3 data rows x 2-3 columns with symbolic row emptiness and symbolic numeric cells, symbolic MissingVal, DataType default / Float / Integer; error tables of 0-2 rows x {numeric, blank, non-numeric in the column, non-numeric elsewhere} x {header present, other header, empty file}; '
                            'writes of 1-3 results x 1-2 cells, masked or unmasked, both listing orders',
                   'thorough': 'up to 4 data rows'},
        'outside': ['bit-exact text <-> double conversion (float(), repr, the csv C module): exercised only by a concrete trip of 11 extreme doubles, reported as supplementary evidence, not solver-decided',
                    'quoting of header names by the csv module', 'arrays of rank > 1 (the writer assumes vectors)'],
        'assumptions': D.STUBS + ['S-open/csv: open() and csv.reader/writer in csv/io.py are stubs: the reader yields an arbitrary table, the writer records rows; every path model is replayed through the real csv module on a real file',
                                  'numeric cells are symbolic numbers (float(text) is the identity on them); int cast = truncation toward zero'],
    }
