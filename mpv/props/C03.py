"""C03 -- missing data stays missing and never leaks into valid results."""
import json

import z3

from .. import datacmd as D

PROP = 'C03'


def boot(scratch):
    D.boot(scratch)


def plan(tier, seed):
    jobs = []
    for sp in D.command_specs_cached().values():
        nary = any(p.kind == 'arrlist' for p in sp.params)
        has_sel = any(p.name == 'NumberToConsider' for p in sp.params)
        heavy = sp.name in ('NormalizeCurveZScore', 'CvtToFuzzyCurveZScore')
        for var in D.default_variants(sp, 'quick'):
            if tier == 'quick':
                # statistic-driven commands need 3 cells: two distinct valid values plus one that can be missing
                n_ = 3 if (sp.name in D.STAT_CMDS or sp.name == 'CvtToFuzzy') and not heavy else 2
                combos = [((n_,), 'm', 2 if nary else 1, 'f')]
                if nary:
                    combos.append(((2,), 'mn', 2, 'f'))
                if not heavy:
                    two = nary or sum(1 for p in sp.params if p.kind == 'arr') >= 2
                    combos.append(((2,), 'm', 2 if nary else 1, 'uu' if two else 'u'))      # unsigned ("Positive Integer") data
            else:
                combos = [((3,), 'm', 2 if nary else 1, 'f'), ((2,), 'm', 3 if nary else 1, 'f'), ((2,), 'md', 2 if nary else 1, 'f'),
                          ((2,), 'm', 2 if nary else 1, 'i'), ((2, 2), 'm', 2 if nary else 1, 'f')]
                if heavy:
                    combos = [((3,), 'm', 1, 'f'), ((2,), 'm', 1, 'i')]
                if any(p.name == 'IgnoreZeros' for p in sp.params):
                    # (4 cells with zero-stripping did not finish in 25 min: 4 cells only without it)
                    combos = [((3,), 'm', 1, 'f'), ((3,), 'm', 1, 'i')] + ([((4,), 'm', 1, 'f')] if not var.get('bool', {}).get('IgnoreZeros') else [])
                if tier != 'quick':
                    combos = combos + [((2,), 'm', 2 if nary else 1, 'u')]       # unsigned integer data
            for shape, reps, k, kind in combos:
                if not nary and len(reps) > 1 and sum(1 for p in sp.params if p.kind == 'arr') < 2:
                    reps = reps[0]
                sel = min(k, 2) if has_sel else 1
                jobs.append(dict(var, cmd=sp.name, shape=list(shape), k=k, reps=reps, kinds=kind, pts=2, sel=sel))
    # constant fields with missing cells (Normalize divides by max - min = 0)
    for sp in D.command_specs_cached().values():
        if sp.name == 'Normalize':
            for var in D.default_variants(sp, 'quick'):
                jobs.append(dict(var, cmd=sp.name, shape=[3], k=1, reps='m', kinds='f', pts=2, sel=1, const_field=True))
    seen, out = set(), []
    for j in jobs:
        key = json.dumps(j, sort_keys=True)
        if key not in seen:
            seen.add(key)
            out.append(j)
    return out


def scenario(ctx, cfg):
    sp = D.command_specs_cached()[cfg['cmd']]
    kw = D.build_kwargs(ctx, sp, cfg, fuzzy_pre=True)
    D.assume_preconditions(ctx, sp, kw, cfg)
    snap = D.snapshot_inputs(kw)
    r0 = D.run_cmd(ctx, sp.name, kw)
    obs, ref = D.oracle_obligations(sp, kw, snap, r0, want=('mask', 'type'))
    if r0.outcome != 'ok':
        return obs
    # ---- non-interference (self-composition): same masks and visible values, independent payloads under the masks
    hs = D.arrays_of(kw)
    if not any(s[1] is not None for s in snap):
        return obs
    given = {}
    for h, (d, m, kind) in zip(hs, snap):
        if m is None:
            given[h.name] = h
            continue
        cells = []
        for i, (x, mk) in enumerate(zip(d, m)):
            p = ctx.real('%s.payload%d' % (h.name, i), integer=(kind == 'i'))
            cells.append(z3.If(mk, p, x))
        given[h.name] = D.derived_array(h.name + "'", cells, m, h.arr.shape, kind, fuzzy=h.fuzzy)
    kw2 = {}
    for k_, v in kw.items():
        if isinstance(v, D.Holder):
            kw2[k_] = given[v.name]
        elif isinstance(v, list) and v and isinstance(v[0], D.Holder):
            kw2[k_] = [given[h.name] for h in v]
        else:
            kw2[k_] = v
    r1 = D.run_cmd(ctx, sp.name, kw2)
    obs.append(D.fact_ob('same outcome whatever lies under the missing cells', ('same_outcome', 0, 1), group='payload-outcome'))
    obs += D.equal_results_obs(r0, r1, 'payload independence', 'payload')
    return obs


def run_job(cfg, seed):
    return D.run_scenario_job(scenario, cfg, PROP, seed, max_paths=cfg.get('max_paths', 12000))


def replay(rec):
    return D.replay_record(rec)


def describe(tier):
    return {
        'level': 'model_checking',
        'functions': ['execute() of every data command of mpilot/libraries/eems/basic.py and fuzzy.py: '
                      + ', '.join(D.command_specs_cached()), 'mpilot/utils.py: insure_fuzzy, make_masked',
                      'mpilot/libraries/eems/mixins.py: validate_array_shapes'],
        'bounds': {
            'quick': '2 cells, all mask placements and payloads symbolic; 2 inputs for n-ary commands (masked+masked, masked+nomask); 2 control points; every option value; float64 and unsigned (uint64) data',
            'thorough': '<=3 cells (MeanToMid without zero-stripping: 4), shape (2,2), 2-3 inputs, masked / nomask / plain inputs, int64, uint64 and float64 data (CurveZScore commands: 2 cells)',
        },
        'outside': ['IEEE-754 rounding/overflow/NaN', 'hard masks', 'unsigned data above 2^20 (only the wrap below zero is modelled), 8/16/32-bit element types', 'CSV/NetCDF mask creation (C17/C18)',
                    'paths leaving the real-number model (statistics of an all-missing array etc.)'],
        'assumptions': D.STUBS + ['A-pre: data flagged fuzzy lies in [-1,1] at non-missing cells; statistic-driven commands get >=2 distinct non-missing values; distinct z-scores; StartVal<EndVal for NormalizeZScore',
                                  'non-interference is checked by self-composition: the command runs twice in one path on inputs that agree on masks and visible values and carry independent payloads'],
    }
