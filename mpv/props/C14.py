"""C14 -- cyclic models are rejected with the recursive-model error, never silently skipped."""
import sys

import z3

from .. import progx as P
from .. import symx
from . import C01

PROP = 'C14'


def boot(scratch):
    P.boot(scratch)
    import mpvnodes  # noqa: F401


def plan(tier, seed):
    jobs = []
    if tier == 'quick':
        jobs += [dict(N=1, kinds=4, via=v) for v in ('api', 'source')]
        jobs += [dict(N=2, kinds=4, via=v) for v in ('api', 'source')]
        jobs += [dict(N=3, kinds=2, via='api'), dict(N=3, kinds=3, via='source', max_edges=4)]
        jobs += [dict(N=n, family=f, via='api') for n in (4, 5) for f in ('ring', 'ring+tail', 'ring+island', 'self+chain')]
        # the same graphs over BUILT-IN commands (which command carries each reference, and with which weight, is solver-chosen)
        jobs += [dict(N=n, kinds=2, via='source', eems=True) for n in (1, 2)]
        jobs += [dict(N=3, family=f, via='source', eems=True) for f in ('ring', 'ring+tail', 'ring+island', 'self+chain')]
    else:
        jobs += [dict(N=n, kinds=2, via='source', eems=True) for n in (1, 2)]
        jobs += [dict(N=3, family=f, via='source', eems=True) for f in ('ring', 'ring+tail', 'ring+island', 'self+chain')]
        # 4 built-in commands: one job per command chosen for the first node (pinned), the other three are free
        jobs += [dict(N=4, family=f, via='source', eems=True, pin={'cmd0': c0}) for f in ('ring', 'ring+tail') for c0 in range(len(UNARY))]
        jobs += [dict(N=n, kinds=4, via=v) for n in (1, 2) for v in ('api', 'source')]
        for first in range(4):
            jobs.append(dict(N=3, kinds=4, via='api', fix01=first))
        jobs.append(dict(N=3, kinds=3, via='source'))
        for first in range(2):
            jobs.append(dict(N=4, kinds=2, via='api', fix01=first))
        jobs += [dict(N=4, kinds=3, via='api', max_edges=4, fix01=f) for f in range(3)]
        jobs += [dict(N=n, family=f, via=v, listy=l) for n in (3, 4, 5) for f in ('ring', 'ring+tail', 'ring+island', 'self+chain')
                 for v in ('api', 'source') for l in (False, True)]
    return jobs


def family_edges(ctx, cfg):
    """structured families of the property text; which commands form the ring, its orientation and the
    reference kind of every edge are solver-chosen"""
    N, fam = cfg['N'], cfg['family']
    kind_choices = [2, 3] if cfg.get('listy') else [1, 2]
    edge = {}

    def ek(name):
        if cfg.get('eems'):
            return 1            # the built-in command chosen for the node fixes how it references (directly / in a list)
        return kind_choices[ctx.choice(name, len(kind_choices))]
    if fam == 'ring':
        rot = ctx.choice('rot', N) if not cfg.get('eems') else 0
        order = list(range(rot, N)) + list(range(rot))
        if ctx.choice('rev', 2):
            order.reverse()
        for a, b in zip(order, order[1:] + order[:1]):
            edge[a, b] = ek('k%d_%d' % (a, b))
    elif fam == 'ring+tail':
        ring = max(2, N - 2)
        for a in range(ring):
            edge[a, (a + 1) % ring] = ek('k%d' % a)
        # tail commands consume the ring (dependents) or are consumed by it
        up = ctx.choice('tail_dir', 2)
        prev = 0
        for t in range(ring, N):
            if up:
                edge[t, prev] = ek('kt%d' % t)
            else:
                edge[prev, t] = ek('kt%d' % t)
            prev = t
    elif fam == 'ring+island':
        ring = max(2, N - 2)
        first = ctx.choice('ring_first', 2)
        ids = list(range(N))
        if first:
            ids = ids[::-1]
        r = ids[:ring]
        isl = ids[ring:]
        for a, b in zip(r, r[1:] + r[:1]):
            edge[a, b] = ek('k%d' % a)
        for a, b in zip(isl, isl[1:]):
            edge[a, b] = ek('ki%d' % a)
    elif fam == 'self+chain':
        s = ctx.choice('self_at', N)
        edge[s, s] = ek('kself')
        for a in range(N - 1):
            if ctx.choice('chain%d' % a, 2):
                edge[a, a + 1] = 1
    return edge


def harness(ctx, cfg):
    N = cfg['N']
    if cfg.get('family'):
        edge = family_edges(ctx, cfg)
    else:
        K = cfg['kinds']
        kind = {}
        for i in range(N):
            for j in range(N):
                kind[i, j] = ctx.int('k_%d_%d' % (i, j))
                ctx.assume(z3.And(kind[i, j] >= 0, kind[i, j] < K))
        # contains a cycle: some command reaches itself (transitive closure over N steps), self-loops included
        reach = {(i, j, 0): kind[i, j] > 0 for i in range(N) for j in range(N)}
        for s in range(1, N):
            for i in range(N):
                for j in range(N):
                    reach[i, j, s] = z3.Or(reach[i, j, s - 1], *[z3.And(reach[i, m, s - 1], kind[m, j] > 0) for m in range(N)])
        ctx.assume(z3.Or(*[reach[i, i, N - 1] for i in range(N)]))
        if cfg.get('max_edges') is not None:
            ctx.assume(z3.Sum(*[z3.If(k > 0, 1, 0) for k in kind.values()]) <= cfg['max_edges'])
        if cfg.get('fix01') is not None and N > 1:
            ctx.assume(kind[0, 1] == (cfg['fix01'] if cfg['fix01'] < K else 0))
        edge = {}
        for (i, j), v in kind.items():
            for val in range(K - 1):
                if ctx.decide(v == val):
                    edge[i, j] = val
                    break
            else:
                edge[i, j] = K - 1
        for i in range(N):
            if sum(1 for j in range(N) if edge.get((i, j)) == 1) > 3:
                raise symx.Abort("more than three direct references (bound)")
    rec = {'N': N, 'edges': [[i, j, k] for (i, j), k in sorted(edge.items()) if k], 'via': cfg['via']}
    eems = None
    if cfg.get('eems'):
        eems = choose_eems(ctx, N, edge)
        rec['eems'] = eems
        rec['text'] = eems_text(N, edge, eems)
    oc, detail = run_concrete(N, edge, cfg['via'], eems)
    shape = 'self-loop' if any(i == j and k for (i, j), k in edge.items()) else 'cycle'
    obs = [('cyclic model is rejected with RecursiveModelStructure', z3.BoolVal(oc == 'rejected'))]
    return {'outcome': oc, 'obligations': obs, 'groups': {obs[0][0]: 'outcome=%s' % oc}, 'replay': dict(rec, observed=oc, detail=detail), 'validated': True}


def one_run(p, executed):
    """run p once -> (outcome, detail); executed() -> names of the commands whose execute() ran so far"""
    E = sys.modules['mpilot.exceptions']
    old = sys.getrecursionlimit()
    sys.setrecursionlimit(400)       # a runaway recursion costs milliseconds, not seconds
    try:
        try:
            p.run()
        except E.RecursiveModelStructure:
            return 'rejected', ''
        except E.UnexpectedError as e:
            return 'unexpected-error(%s)' % type(e.exc).__name__, ''
        except E.MPilotError as e:
            return 'other-mpilot-error(%s)' % type(e).__name__, ''
        except RecursionError:
            return 'interpreter-recursion-limit', ''
    finally:
        sys.setrecursionlimit(old)
    done = executed()
    skipped = [nm for nm in p.commands if nm not in done]
    return ('returned-normally-with-unexecuted-commands' if skipped else 'returned-normally'), 'not executed: %s' % skipped


def run_concrete(N, edge, via, eems=None):
    """build the model, run it, and - when it was rejected - run the SAME Program object a second time (a cyclic
    model is rejected by every run, not only by the first)"""
    import mpvnodes
    del mpvnodes.LOG[:]
    if eems is not None:
        p, executed = build_eems(N, edge, eems)
    else:
        p = C01.build(N, edge, via)
        executed = lambda: set(mpvnodes.LOG)     # noqa: E731
    oc, detail = one_run(p, executed)
    if oc != 'rejected':
        return oc, detail
    oc2, detail2 = one_run(p, executed)
    if oc2 != 'rejected':
        return 'second-run:' + oc2, detail2
    return 'rejected', ''


EEMS_LIBS = ('mpilot.libraries.eems.basic', 'mpvinputs')
UNARY = ['Copy', 'Sum2', 'WSum-t-first', 'WSum-t-last', 'Multiply1', 'AMinusB', 'Mean2', 'WMean']
NARY = ['Sum', 'WeightedSum', 'Maximum', 'WeightedMean']
WEIGHTS = [0, 1, 0.5]


def choose_eems(ctx, N, edge):
    """solver-chosen built-in command (and weights) for every node of the graph"""
    plan_ = []
    for i in range(N):
        ts = [j for j in range(N) if edge.get((i, j))]
        if not ts:
            plan_.append(('leafcopy', []))
        elif len(ts) == 1:
            c = UNARY[ctx.choice('cmd%d' % i, len(UNARY))]
            w = WEIGHTS[ctx.choice('w%d' % i, len(WEIGHTS))] if c.startswith('W') else None
            plan_.append((c, [w]))
        else:
            c = NARY[ctx.choice('cmd%d' % i, len(NARY))]
            ws = [WEIGHTS[ctx.choice('w%d_%d' % (i, t), 2)] for t in ts] if c.startswith('Weighted') else []
            if ws and not any(ws):
                ws[-1] = 0.5        # WeightedMean of all-zero weights is a different (arithmetic) matter
            plan_.append((c, ws))
    return plan_


def eems_text(N, edge, plan_):
    lines = ['X = SymInput(Name = X)']
    for i in range(N):
        ts = ['c%d' % j for j in range(N) if edge.get((i, j))]
        c, ws = plan_[i]
        nm = 'c%d' % i
        if c == 'leafcopy':
            lines.append('%s = Copy(InFieldName = X)' % nm)
        elif c == 'Copy':
            lines.append('%s = Copy(InFieldName = %s)' % (nm, ts[0]))
        elif c == 'Sum2':
            lines.append('%s = Sum(InFieldNames = [%s, X])' % (nm, ts[0]))
        elif c == 'Mean2':
            lines.append('%s = Mean(InFieldNames = [X, %s])' % (nm, ts[0]))
        elif c == 'Multiply1':
            lines.append('%s = Multiply(InFieldNames = [%s])' % (nm, ts[0]))
        elif c == 'AMinusB':
            lines.append('%s = AMinusB(A = X, B = %s)' % (nm, ts[0]))
        elif c == 'WSum-t-first':
            lines.append('%s = WeightedSum(InFieldNames = [%s, X], Weights = [%s, 1])' % (nm, ts[0], ws[0]))
        elif c == 'WSum-t-last':
            lines.append('%s = WeightedSum(InFieldNames = [X, %s], Weights = [1, %s])' % (nm, ts[0], ws[0]))
        elif c == 'WMean':
            lines.append('%s = WeightedMean(InFieldNames = [X, %s], Weights = [2, %s])' % (nm, ts[0], ws[0]))
        elif c in ('Sum', 'Maximum'):
            lines.append('%s = %s(InFieldNames = [%s])' % (nm, c, ', '.join(ts)))
        else:
            lines.append('%s = %s(InFieldNames = [%s], Weights = [%s])' % (nm, c, ', '.join(ts), ', '.join(str(w) for w in ws)))
    return '\n'.join(lines)


def build_eems(N, edge, plan_):
    import numpy
    import mpvinputs
    from mpilot.program import Program
    mpvinputs.TABLE['X'] = numpy.ma.array([1.0, 2.0, 4.0], mask=[False, True, False])
    p = Program.from_source(eems_text(N, edge, plan_), libraries=EEMS_LIBS)
    return p, (lambda: set(nm for nm, c in p.commands.items() if c.is_finished))


def confirm(rec, label):
    edge = {(i, j): k for i, j, k in rec['edges']}
    oc, detail = run_concrete(rec['N'], edge, rec['via'], [tuple(x) for x in rec['eems']] if rec.get('eems') else None)
    return oc != 'rejected', 'fresh real run: %s %s' % (oc, detail)


def run_job(cfg, seed):
    return P.run_struct_job(harness, cfg, PROP, seed, confirm=confirm, max_paths=cfg.get('max_paths', 400000))


def replay(rec):
    ok, why = confirm(rec['record'], rec.get('label'))
    return {'reproduced': ok, 'why': why}


def describe(tier):
    return {
        'level': 'model_checking',
        'functions': ['mpilot/program.py: Program.run (leaf selection), add_command, from_source', 'mpilot/commands.py: Command.run, Command.result',
                      'mpilot/params.py: ResultParameter.clean, ListParameter.clean', 'mpilot/exceptions.py: RecursiveModelStructure'],
        'bounds': {
            'quick': 'every directed graph with at least one cycle (self-loops included) on N<=2 commands with reference kinds {direct, list, nested list}, N=3 with direct references (all) and with lists (<=4 edges), '
                     'built through add_command and from_source; N=4,5: the structured families ring, ring+tail (tail consuming or consumed), ring+separate acyclic component, self-loop+chain with solver-chosen orientation and reference kinds; '
                     'the same over BUILT-IN commands (Copy, Sum, Mean, Multiply, AMinusB, Maximum, WeightedSum / WeightedMean with weights from {0, 1, 0.5}; which command carries each reference is solver-chosen): all cyclic graphs on N<=2, the families on N=3; '
                     'every rejected model is run a second time on the same Program object',
            'thorough': 'built-in commands: all cyclic graphs on N<=2, the families on N=3, ring and ring+tail on N=4 (8 pinned slices each); N=3 all kinds exhaustively, N=4 direct exhaustively, N=4 lists <=4 edges, families on N=3..5 through both construction paths incl. list / nested-list edges',
        },
        'outside': ['graphs on more than 5 commands', 'user commands that never read one of their inputs (detection is dynamic: a reference that is never followed is never seen)', 'N>=4 beyond direct references and the listed families'],
        'assumptions': ['graph structure = z3 integer variables constrained by "some command reaches itself" (transitive-closure Booleans); the explorer follows exactly the satisfiable assignments',
                        'the interpreter recursion limit is lowered to 400 during the run so that runaway recursion is observed quickly',
                        'every explored path is a run of the real Program on that concrete graph'],
    }
