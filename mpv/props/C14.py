"""C14 -- cyclic models are rejected with the recursive-model error, never silently skipped."""
import sys

import z3

from .. import progx as P
from .. import symx
from . import C01

PROP = 'C14'


def boot(scratch):
    P.boot(scratch)
    import mpvnodes  # noqa: F401


def plan(tier, seed):
    jobs = []
    if tier == 'quick':
        jobs += [dict(N=1, kinds=4, via=v) for v in ('api', 'source')]
        jobs += [dict(N=2, kinds=4, via=v) for v in ('api', 'source')]
        jobs += [dict(N=3, kinds=2, via='api'), dict(N=3, kinds=3, via='source', max_edges=4)]
        jobs += [dict(N=n, family=f, via='api') for n in (4, 5) for f in ('ring', 'ring+tail', 'ring+island', 'self+chain')]
    else:
        jobs += [dict(N=n, kinds=4, via=v) for n in (1, 2) for v in ('api', 'source')]
        for first in range(4):
            jobs.append(dict(N=3, kinds=4, via='api', fix01=first))
        jobs.append(dict(N=3, kinds=3, via='source'))
        for first in range(2):
            jobs.append(dict(N=4, kinds=2, via='api', fix01=first))
        jobs.append(dict(N=4, kinds=3, via='api', max_edges=5))
        jobs += [dict(N=n, family=f, via=v, listy=l) for n in (3, 4, 5) for f in ('ring', 'ring+tail', 'ring+island', 'self+chain')
                 for v in ('api', 'source') for l in (False, True)]
    return jobs


def family_edges(ctx, cfg):
    """structured families of the property text; which commands form the ring, its orientation and the
    reference kind of every edge are solver-chosen"""
    N, fam = cfg['N'], cfg['family']
    kind_choices = [2, 3] if cfg.get('listy') else [1, 2]
    edge = {}

    def ek(name):
        return kind_choices[ctx.choice(name, len(kind_choices))]
    if fam == 'ring':
        rot = ctx.choice('rot', N)
        order = list(range(rot, N)) + list(range(rot))
        if ctx.choice('rev', 2):
            order.reverse()
        for a, b in zip(order, order[1:] + order[:1]):
            edge[a, b] = ek('k%d_%d' % (a, b))
    elif fam == 'ring+tail':
        ring = max(2, N - 2)
        for a in range(ring):
            edge[a, (a + 1) % ring] = ek('k%d' % a)
        # tail commands consume the ring (dependents) or are consumed by it
        up = ctx.choice('tail_dir', 2)
        prev = 0
        for t in range(ring, N):
            if up:
                edge[t, prev] = ek('kt%d' % t)
            else:
                edge[prev, t] = ek('kt%d' % t)
            prev = t
    elif fam == 'ring+island':
        ring = max(2, N - 2)
        first = ctx.choice('ring_first', 2)
        ids = list(range(N))
        if first:
            ids = ids[::-1]
        r = ids[:ring]
        isl = ids[ring:]
        for a, b in zip(r, r[1:] + r[:1]):
            edge[a, b] = ek('k%d' % a)
        for a, b in zip(isl, isl[1:]):
            edge[a, b] = ek('ki%d' % a)
    elif fam == 'self+chain':
        s = ctx.choice('self_at', N)
        edge[s, s] = ek('kself')
        for a in range(N - 1):
            if ctx.choice('chain%d' % a, 2):
                edge[a, a + 1] = 1
    return edge


def harness(ctx, cfg):
    N = cfg['N']
    if cfg.get('family'):
        edge = family_edges(ctx, cfg)
    else:
        K = cfg['kinds']
        kind = {}
        for i in range(N):
            for j in range(N):
                kind[i, j] = ctx.int('k_%d_%d' % (i, j))
                ctx.assume(z3.And(kind[i, j] >= 0, kind[i, j] < K))
        # contains a cycle: some command reaches itself (transitive closure over N steps), self-loops included
        reach = {(i, j, 0): kind[i, j] > 0 for i in range(N) for j in range(N)}
        for s in range(1, N):
            for i in range(N):
                for j in range(N):
                    reach[i, j, s] = z3.Or(reach[i, j, s - 1], *[z3.And(reach[i, m, s - 1], kind[m, j] > 0) for m in range(N)])
        ctx.assume(z3.Or(*[reach[i, i, N - 1] for i in range(N)]))
        if cfg.get('max_edges') is not None:
            ctx.assume(z3.Sum(*[z3.If(k > 0, 1, 0) for k in kind.values()]) <= cfg['max_edges'])
        if cfg.get('fix01') is not None and N > 1:
            ctx.assume(kind[0, 1] == (cfg['fix01'] if cfg['fix01'] < K else 0))
        edge = {}
        for (i, j), v in kind.items():
            for val in range(K - 1):
                if ctx.decide(v == val):
                    edge[i, j] = val
                    break
            else:
                edge[i, j] = K - 1
        for i in range(N):
            if sum(1 for j in range(N) if edge.get((i, j)) == 1) > 3:
                raise symx.Abort("more than three direct references (bound)")
    rec = {'N': N, 'edges': [[i, j, k] for (i, j), k in sorted(edge.items()) if k], 'via': cfg['via']}
    oc, detail = run_concrete(N, edge, cfg['via'])
    shape = 'self-loop' if any(i == j and k for (i, j), k in edge.items()) else 'cycle'
    obs = [('cyclic model is rejected with RecursiveModelStructure', z3.BoolVal(oc == 'rejected'))]
    return {'outcome': oc, 'obligations': obs, 'groups': {obs[0][0]: 'outcome=%s' % oc}, 'replay': dict(rec, observed=oc, detail=detail), 'validated': True}


def run_concrete(N, edge, via):
    import mpvnodes
    E = sys.modules['mpilot.exceptions']
    del mpvnodes.LOG[:]
    old = sys.getrecursionlimit()
    sys.setrecursionlimit(400)       # a runaway recursion costs milliseconds, not seconds
    try:
        try:
            p = C01.build(N, edge, via)
            p.run()
        except E.RecursiveModelStructure:
            return 'rejected', ''
        except E.UnexpectedError as e:
            return 'unexpected-error(%s)' % type(e.exc).__name__, ''
        except E.MPilotError as e:
            return 'other-mpilot-error(%s)' % type(e).__name__, ''
        except RecursionError:
            return 'interpreter-recursion-limit', ''
    finally:
        sys.setrecursionlimit(old)
    names = ['c%d' % i for i in range(N)]
    skipped = [nm for nm in names if mpvnodes.LOG.count(nm) == 0]
    return ('returned-normally-with-unexecuted-commands' if skipped else 'returned-normally'), 'not executed: %s' % skipped


def confirm(rec, label):
    edge = {(i, j): k for i, j, k in rec['edges']}
    oc, detail = run_concrete(rec['N'], edge, rec['via'])
    return oc != 'rejected', 'fresh real run: %s %s' % (oc, detail)


def run_job(cfg, seed):
    return P.run_struct_job(harness, cfg, PROP, seed, confirm=confirm, max_paths=cfg.get('max_paths', 400000))


def replay(rec):
    ok, why = confirm(rec['record'], rec.get('label'))
    return {'reproduced': ok, 'why': why}


def describe(tier):
    return {
        'level': 'model_checking',
        'functions': ['mpilot/program.py: Program.run (leaf selection), add_command, from_source', 'mpilot/commands.py: Command.run, Command.result',
                      'mpilot/params.py: ResultParameter.clean, ListParameter.clean', 'mpilot/exceptions.py: RecursiveModelStructure'],
        'bounds': {
            'quick': 'every directed graph with at least one cycle (self-loops included) on N<=2 commands with reference kinds {direct, list, nested list}, N=3 with direct references (all) and with lists (<=4 edges), '
                     'built through add_command and from_source; N=4,5: the structured families ring, ring+tail (tail consuming or consumed), ring+separate acyclic component, self-loop+chain with solver-chosen orientation and reference kinds',
            'thorough': 'N=3 all kinds exhaustively, N=4 direct exhaustively, N=4 lists <=5 edges, families on N=3..5 through both construction paths incl. list / nested-list edges',
        },
        'outside': ['graphs on more than 5 commands', 'N>=4 beyond direct references and the listed families'],
        'assumptions': ['graph structure = z3 integer variables constrained by "some command reaches itself" (transitive-closure Booleans); the explorer follows exactly the satisfiable assignments',
                        'the interpreter recursion limit is lowered to 400 during the run so that runaway recursion is observed quickly',
                        'every explored path is a run of the real Program on that concrete graph'],
    }
