"""C02 -- model results equal the evaluation of the dependency graph, whatever the file order.

Whole models run through the real Program.from_source + Program.run on the symbolic numpy: leaves are
verification-only input commands (mpv/nodes/mpvinputs.py) handing symbolic arrays to the model, inner nodes are
the built-in commands with concrete literal parameters.  Every command result is compared with the reference
semantics (mpv/oracle.py) applied bottom-up along the graph."""
import os
import sys
import json
import random
import collections
from fractions import Fraction

import z3

from .. import datacmd as D
from .. import symx
from .. import oracle
from ..geval import geval, EvalError

PROP = 'C02'
LIBS = ['mpilot.libraries.eems.basic', 'mpilot.libraries.eems.fuzzy', 'mpvinputs']

NUM_DEFAULTS = {'TrueThreshold': 1.5, 'FalseThreshold': -0.5, 'Threshold': 0.25, 'StartVal': -0.5, 'EndVal': 2, 'DefaultNormalValue': 0.125,
                'DefaultFuzzyValue': 0.125, 'TrueThresholdZScore': 1.5, 'FalseThresholdZScore': -0.75, 'NumberToConsider': 2}
LIST_DEFAULTS = {'Weights': [0.5, 1.5, 2, 0.25], 'RawValues': [0, 1, -1, 2], 'NormalValues': [-0.5, 0.25, 1.5, 0.75], 'FuzzyValues': [-0.5, 0.25, 1.5, 0.75],
                 'ZScoreValues': [-1, 0.5, 1.5, -0.25]}
MTM = [-1, -0.5, 0.25, 0.5, 1.5]


def boot(scratch):
    D.boot(scratch)
    sys.path.insert(0, os.path.join(D.HERE, 'mpv', 'nodes'))
    import mpvinputs  # noqa: F401
    import mpilot.program  # noqa: F401


def compatible(prod, param):
    if param.fuzzy is True:
        return prod.fuzzy_out
    if param.fuzzy is False:
        return not prod.fuzzy_out
    return True


def array_params(sp):
    return [p for p in sp.params if p.kind in ('arr', 'arrlist')]


def plan(tier, seed):
    specs = list(D.command_specs_cached().values())
    pairs = []
    for prod in specs:
        for cons in specs:
            for p in array_params(cons):
                if compatible(prod, p):
                    pairs.append((prod.name, cons.name, p.name))
                    break
    rng = random.Random(seed)
    if tier == 'quick':
        # covering set: every command at least twice as producer and twice as consumer
        need_p = collections.Counter({s.name: 2 for s in specs})
        need_c = collections.Counter({s.name: 2 for s in specs})
        rng.shuffle(pairs)
        chosen = []
        for pr, co, pn in pairs:
            if need_p[pr] > 0 or need_c[co] > 0:
                chosen.append((pr, co, pn))
                need_p[pr] -= 1
                need_c[co] -= 1
        pairs = chosen
    jobs = []
    for idx, (pr, co, pn) in enumerate(sorted(pairs)):
        stat = lambda nm: any(t in nm for t in ('ZScore', 'MeanToMid', 'XOr', 'SelectedUnion'))     # noqa: E731
        heavy = stat(pr) or stat(co)
        if stat(pr) and stat(co) and tier == 'quick':
            continue        # statistic-on-statistic chains: thorough tier only (nonlinear on nonlinear)
        layouts = ['forward', 'reverse'] if tier == 'thorough' else [['forward', 'reverse'][idx % 2]]
        for layout in layouts:
            jobs.append(dict(kind='pair', prod=pr, cons=co, param=pn, layout=layout, meta=(idx % 3 == 0), extra_consumer=(idx % 2 == 1), alt=(idx // 2) % 2, intcols=(idx % 4 == 1),
                             n=(1 if (pr == co == 'FuzzyXOr') else 2) if heavy else 3, sampled=(tier == 'quick')))      # XOr of XOr: one cell (a rational function of a rational function)
    # deeper shapes: diamonds and depth-3 chains drawn from the typed grammar (labelled sampled)
    ndeep = 12 if tier == 'quick' else 120
    cheap = [s for s in specs if 'ZScore' not in s.name and 'MeanToMid' not in s.name and s.name not in ('FuzzyXOr', 'FuzzySelectedUnion')]
    for t in range(ndeep):
        jobs.append(dict(kind='deep', shape=rng.choice(['chain3', 'diamond']), pick=[rng.randrange(10 ** 6) for _ in range(4)], n=2, sampled=True,
                         order=rng.randrange(24), meta=bool(t % 2)))
    return jobs


# ------------------------------------------------------------------ model construction
class Model(object):
    """commands in LOGICAL order: (result name, CmdSpec or 'input', {param: literal / ref / [refs]}, fuzzy flag)"""

    def __init__(self, alt=0):
        self.cmds = []
        self.inputs = []
        self.alt = alt

    def add_input(self, name, fuzzy):
        self.cmds.append((name, 'input', {'Name': name}, fuzzy))
        self.inputs.append((name, fuzzy))
        return name

    def add(self, name, sp, refs, npts=2, k=2):
        """refs: {array param name: result name or [names]}; other parameters get literal defaults"""
        args = collections.OrderedDict()
        for p in sp.params:
            if p.kind in ('arr', 'arrlist'):
                args[p.name] = refs[p.name]
            elif p.kind == 'num':
                if not p.required and p.name not in ('TrueThreshold', 'FalseThreshold', 'TrueThresholdZScore', 'FalseThresholdZScore'):
                    continue
                args[p.name] = NUM_DEFAULTS.get(p.name, 0.5)
                if self.alt % 2 == 1 and p.name == 'TrueThreshold':
                    args[p.name] = 0        # alt 1: a threshold of exactly zero (an integer literal) is a threshold like any other
            elif p.kind == 'numlist':
                if any(q.name == 'IgnoreZeros' for q in sp.params):
                    args[p.name] = list(MTM)
                elif p.name == 'Weights':
                    # alt 1: weights of mixed sign (legal: only a zero sum is excluded) push weighted means out of range
                    ws = LIST_DEFAULTS['Weights'] if self.alt % 2 == 0 else [2, -0.5, 1.5, -0.25]
                    args[p.name] = ws[:len(refs.get('InFieldNames', [0, 0]))]
                else:
                    args[p.name] = LIST_DEFAULTS[p.name][:npts]
            elif p.kind == 'bool':
                args[p.name] = False
            elif p.kind == 'str':
                if p.required:
                    ch = D.STR_CHOICES.get(p.name, ['x'])
                    args[p.name] = ch[self.alt % len(ch)]
        self.cmds.append((name, sp, args, sp.fuzzy_out))
        return name

    def text(self, order, meta):
        def lit(v):
            if isinstance(v, bool):
                return 'True' if v else 'False'
            if isinstance(v, list):
                return '[%s]' % ', '.join(lit(x) for x in v)
            if isinstance(v, float):
                return repr(v)
            return str(v)
        lines = []
        for i in order:
            name, sp, args, fz = self.cmds[i]
            cname = ('SymFuzzyInput' if fz else 'SymInput') if sp == 'input' else sp.name
            parts = ['%s = %s' % (k, ('"%s"' % v) if (sp == 'input') else lit(v)) for k, v in args.items()]
            if meta and i % 2 == 0:
                md = 'Metadata = [DisplayName: "x %d", Description: "about %s"]' % (i, name)
                parts.insert((i // 2) % (len(parts) + 1), md)       # first, in the middle or last
            lines.append('%s = %s(\n    %s\n)' % (name, cname, ',\n    '.join(parts)))
        return '\n'.join(lines) + '\n'


def input_kind_for(param, rng_pick):
    return bool(param.fuzzy)


def build_pair(cfg):
    specs = D.command_specs_cached()
    prod, cons = specs[cfg['prod']], specs[cfg['cons']]
    m = Model(cfg.get('alt', 0))
    cnt = [0]

    def iname(k):
        # alt 1: input names that differ from the command names P, C, E only in letter case (result names are case sensitive)
        return (['p', 'c', 'e'] + ['in%d' % i for i in range(4, 12)])[k - 1] if m.alt % 2 == 1 else 'In%d' % k

    def feed(sp, use=None, use_param=None):
        refs = {}
        for p in array_params(sp):
            if p.kind == 'arr':
                if use is not None and p.name == use_param:
                    refs[p.name] = use
                else:
                    cnt[0] += 1
                    refs[p.name] = m.add_input(iname(cnt[0]), bool(p.fuzzy))
            else:
                items = []
                if use is not None and p.name == use_param:
                    items.append(use)
                while len(items) < 2:       # n-ary commands always get two inputs (FuzzyXOr needs a second-truest value)
                    cnt[0] += 1
                    items.append(m.add_input(iname(cnt[0]), bool(p.fuzzy) if p.fuzzy is not None else (use is not None and prod.fuzzy_out)))
                refs[p.name] = items
        return refs
    rp = feed(prod)
    m.add('P', prod, rp)
    rc = feed(cons, use='P', use_param=cfg['param'])
    m.add('C', cons, rc)
    if cfg.get('extra_consumer'):
        other = specs['FuzzyNot'] if prod.fuzzy_out else specs['Copy']
        m.add('E', other, {'InFieldName': 'P'})
    n = len(m.cmds)
    order = list(range(n))
    if cfg['layout'] == 'reverse':
        order.reverse()
    return m, order


def build_deep(cfg):
    specs = list(D.command_specs_cached().values())
    cheap = [s for s in specs if 'ZScore' not in s.name and 'MeanToMid' not in s.name and s.name not in ('FuzzyXOr', 'FuzzySelectedUnion')]
    pick = cfg['pick']
    m = Model(cfg.get('order', 0))
    cnt = [0]

    def new_input(fz):
        cnt[0] += 1
        return m.add_input('In%d' % cnt[0], fz)

    def choose(seedv, want_fuzzy_in=None, accept=None):
        cands = [s for s in cheap if (accept is None or accept(s))]
        return cands[seedv % len(cands)]

    def feed(sp, avail):
        """avail: list of (name, fuzzy) results that may be consumed"""
        refs = {}
        used = False
        for p in array_params(sp):
            ok = [a for a in avail if (p.fuzzy is None or bool(p.fuzzy) == a[1])]
            if p.kind == 'arr':
                if ok and not used:
                    refs[p.name] = ok[0][0]
                    used = True
                else:
                    refs[p.name] = new_input(bool(p.fuzzy))
            else:
                items = [a[0] for a in ok[:2]]
                used = used or bool(items)
                while len(items) < 2:
                    fz = bool(p.fuzzy) if p.fuzzy is not None else (ok[0][1] if ok else False)
                    items.append(new_input(fz))
                refs[p.name] = items
        return refs
    a = choose(pick[0])
    m.add('A', a, feed(a, []))
    if cfg['shape'] == 'chain3':
        b = choose(pick[1], accept=lambda s: any(compatible(a, p) for p in array_params(s)))
        m.add('B', b, feed(b, [('A', a.fuzzy_out)]))
        c = choose(pick[2], accept=lambda s: any(compatible(b, p) for p in array_params(s)))
        m.add('C', c, feed(c, [('B', b.fuzzy_out)]))
    else:
        b = choose(pick[1], accept=lambda s: any(compatible(a, p) for p in array_params(s)))
        m.add('B', b, feed(b, [('A', a.fuzzy_out)]))
        c = choose(pick[2], accept=lambda s: any(compatible(a, p) for p in array_params(s)))
        m.add('C', c, feed(c, [('A', a.fuzzy_out)]))
        d = choose(pick[3], accept=lambda s: any(p.kind == 'arrlist' and compatible(b, p) and compatible(c, p) for p in array_params(s))
                   or any(compatible(b, p) for p in array_params(s)))
        m.add('D', d, feed(d, [('B', b.fuzzy_out), ('C', c.fuzzy_out)]))
    n = len(m.cmds)
    order = list(range(n))
    random.Random(cfg['order']).shuffle(order)
    return m, order


# ------------------------------------------------------------------ the harness
def harness(ctx, cfg):
    import mpvinputs
    Program = sys.modules['mpilot.program'].Program
    MPilotError = sys.modules['mpilot.exceptions'].MPilotError
    model, order = build_pair(cfg) if cfg['kind'] == 'pair' else build_deep(cfg)
    n = cfg.get('n', 2)
    mpvinputs.TABLE.clear()
    holders = {}
    for name, fz in model.inputs:
        # integer columns: every second non-fuzzy leaf of a model is an int64 column when the job asks for it
        kind = 'i' if (cfg.get('intcols') and not fz and len(holders) % 2 == 0) else 'f'
        h = D.sym_array(ctx, name, (n,), kind, 'ma', fuzzy=fz)
        holders[name] = h
        KINDS[name] = kind
        mpvinputs.TABLE[name] = h.arr
    snap = {name: D.arr_cells(h.arr) for name, h in holders.items()}
    # ---- reference evaluation, bottom-up (before the run, so that documented preconditions of statistic-driven
    #      commands can be assumed on whatever feeds them: >= 2 distinct non-missing values)
    ref = {}
    reference_ok = True
    for name, sp, args, fz in model.cmds:
        if sp == 'input':
            d, mk, rep = snap[name]
            ref[name] = (list(d), list(mk))
            continue
        ins = []
        for p in array_params(sp):
            r = args[p.name]
            for x in (r if isinstance(r, list) else [r]):
                if x not in ref:
                    reference_ok = False
                    break
                ins.append(ref[x])
        if not reference_ok:
            break
        if sp.name in D.STAT_CMDS or (sp.name == 'CvtToFuzzy' and 'TrueThreshold' not in args):
            for d_, m_ in ins:
                pairs = [z3.And(z3.Not(m_[i]), z3.Not(m_[j]), d_[i] != d_[j]) for i in range(len(d_)) for j in range(i + 1, len(d_))]
                ctx.assume(z3.Or(*pairs) if pairs else z3.BoolVal(False))
        params = {k: v for k, v in args.items() if not any(k == p.name for p in array_params(sp))}
        rr = oracle.reference(sp.name, [(a, b) for a, b in ins], params)
        if rr is None:
            reference_ok = False
            break
        nn = len(ins[0][0])
        um = [z3.Or(*[m_[i] for _, m_ in ins]) for i in range(nn)]
        ref[name] = (rr['vals'], [z3.Or(um[i], rr['undefined'][i]) for i in range(nn)])
    source = model.text(order, cfg.get('meta'))
    out = {'source': source, 'model': model, 'snap': snap, 'cfg': cfg}
    try:
        p = Program.from_source(source, libraries=tuple(LIBS))
        p.run()
    except MPilotError as e:
        out.update(outcome='mpilot:' + type(e).__name__, results=None)
        inner = getattr(e, 'exc', None)
        if isinstance(inner, (symx.Inconclusive,)):
            raise inner
    except (symx.Abort, symx.Outside, symx.Inconclusive):
        raise
    except Exception as e:
        out.update(outcome='exc:' + type(e).__name__, results=None)
    else:
        out.update(outcome='ok', results={name: c._result for name, c in p.commands.items()})
    obs = []
    tmpl_bind = []
    out['ref_complete'] = reference_ok
    if out['outcome'] != 'ok':
        obs.append({'label': 'well-typed model runs (%s)' % out['outcome'], 'kind': 'fact', 'value': False, 'group': 'model-outcome'})
    elif reference_ok:
        for name, sp, args, fz in model.cmds:
            res = out['results'][name]
            rv, rm = ref[name]
            if sp == 'input':
                # a leaf's result is the table column itself - also AFTER the run (no consumer may write into it)
                sp = LEAF
            if not isinstance(res, D.symnp.ndarray) or res.size != len(rv):
                obs.append({'label': '%s (%s): result is an array of the input shape' % (name, sp.name), 'kind': 'fact', 'value': False, 'group': 'result-shape ' + sp.name})
                continue
            cells = res.data.cells() if isinstance(res, D.symnp.MaskedArray) else res.cells()
            masks = res.maskcells() if isinstance(res, D.symnp.MaskedArray) else [z3.BoolVal(False)] * len(cells)
            for i in range(len(cells)):
                pd, pm = z3.Real('%s.r.d%d' % (name, i)), z3.Bool('%s.r.m%d' % (name, i))
                tmpl_bind += [(pd, cells[i]), (pm, masks[i])]
                obs.append({'label': '%s (%s) cell %d: missing as in the reference evaluation' % (name, sp.name, i), 'kind': 'term', 'template': pm == rm[i],
                            'group': 'graph-mask ' + sp.name})
                diff = pd - rv[i]
                obs.append({'label': '%s (%s) cell %d: value equals the reference evaluation of the graph' % (name, sp.name, i), 'kind': 'term',
                            'template': z3.Or(pm, pd == rv[i]), 'neg': z3.And(z3.Not(pm), z3.Not(rm[i]), z3.Or(diff > D.R_MARGIN, -diff > D.R_MARGIN)),
                            'group': 'graph-value ' + sp.name})
    compiled = []
    for o in obs:
        if o['kind'] == 'term':
            o['actual'] = z3.substitute(o['template'], *tmpl_bind)
            if o.get('neg') is not None:
                o['neg_actual'] = z3.substitute(o['neg'], *tmpl_bind)
        else:
            o['actual'] = z3.BoolVal(o['value'])
        compiled.append((o['label'], o['actual']))
    out['obs'] = obs
    out['obligations'] = compiled
    return out


# ------------------------------------------------------------------ validation / replay against the real numpy
KINDS = {}


class LEAF(object):
    name = 'input'


def concrete_inputs(snap, m, fuzzy_of):
    req = {}
    for name, (d, mk, rep) in snap.items():
        req[name] = {'t': 'arr', 'rep': 'ma', 'kind': KINDS.get(name, 'f'), 'shape': [len(d)], 'fuzzy': fuzzy_of.get(name, False),
                     'data': [(int(symx.model_value(m, t)) if KINDS.get(name) == 'i' else float(symx.model_value(m, t))) for t in d], 'mask': [bool(symx.model_value(m, t)) for t in mk]}
    return req


def compare(out, rep, m):
    if out['outcome'] != 'ok':
        if rep['ok']:
            return 'outcome sym=%s real=ok' % out['outcome']
        want = out['outcome'].split(':', 1)[1]
        if rep['exc'] != want:
            return 'outcome sym=%s real=%s' % (out['outcome'], rep['exc'])
        return None
    if not rep['ok']:
        return 'outcome sym=ok real=%s %s' % (rep['exc'], rep.get('msg'))
    for name, res in out['results'].items():
        rr = rep['results'][name]
        summ = D.summary_of(res)
        if summ['type'] != rr['type']:
            return '%s type sym=%s real=%s' % (name, summ['type'], rr['type'])
        if summ['type'] not in ('ma', 'nd'):
            continue
        if summ['shape'] != rr['shape']:
            return '%s shape sym=%s real=%s' % (name, summ['shape'], rr['shape'])
        cells = res.data.cells() if summ['type'] == 'ma' else res.cells()
        masks = [bool(symx.model_value(m, t)) for t in res.maskcells()] if summ['type'] == 'ma' else [False] * len(cells)
        rmask = rr['mask'] or [False] * len(cells)
        if masks != rmask:
            return '%s mask sym=%s real=%s' % (name, masks, rmask)
        for i, (t, b) in enumerate(zip(cells, rr['data'])):
            if masks[i]:
                continue
            a = symx.model_value(m, t)
            if isinstance(b, str) or isinstance(a, str) or not D.close(float(a), b):
                return '%s cell %d sym=%r real=%r' % (name, i, a, b)
    return None


def run_job(cfg, seed):
    import time
    t0 = time.time()
    cex, unrepro, samples, mismatches = [], [], [], []
    validated = [0]
    outside = [0]
    seen = collections.Counter()

    def on_path(ctx, out, statuses, res):
        if out['outcome'].startswith('outside'):
            outside[0] += 1
            return
        fuzzy_of = dict(out['model'].inputs)
        m, dy = symx.nice_model(ctx)
        if m is not None:
            try:
                rep = D.WORKER.ask({'program': out['source'], 'inputs': concrete_inputs(out['snap'], m, fuzzy_of), 'libraries': LIBS})
                bad = compare(out, rep, m)
            except (OverflowError, ValueError) as e:
                bad = 'cannot concretise: %s' % e
            if bad is None:
                validated[0] += 1
                if len(samples) < 2:
                    samples.append({'model_text': out['source'], 'outcome': out['outcome'], 'inputs': D.model_dict(ctx, m)})
            else:
                mismatches.append({'why': bad, 'source': out['source']})
        bylabel = {o['label']: o for o in out['obs']}
        for label, st, mdl in statuses:
            if st != 'sat':
                continue
            o = bylabel[label]
            sig = '%s %s' % (PROP, o['group'])
            if seen[sig] >= 2:
                cex.append({'dup': True, 'label': label})
                continue
            extra = [o['neg_actual']] if o.get('neg_actual') is not None else ([z3.Not(o['actual'])] if o['kind'] == 'term' else [])
            m2, _ = symx.nice_model(ctx, extra)
            if m2 is None:
                m2 = mdl
            if m2 is None:
                m2, _ = symx.nice_model(ctx)
            rec = {'label': label, 'group': o['group'], 'signature': sig, 'cfg': cfg, 'property': PROP, 'source': out['source'], 'libraries': LIBS,
                   'inputs': concrete_inputs(out['snap'], m2, fuzzy_of), 'kind': o['kind'], 'input_values': D.model_dict(ctx, m2)}
            if o['kind'] == 'term':
                s_ = z3.Solver()
                s_.add(o['template'])
                rec['template_smt2'] = s_.to_smt2()
            ok, why = judge(rec, o.get('template'))
            rec['reproduced'], rec['why'] = ok, why
            if ok:
                seen[sig] += 1
                cex.append(rec)
            else:
                unrepro.append(rec)

    try:
        res = symx.explore(lambda c: harness(c, cfg), max_paths=cfg.get('max_paths', 6000), seed=seed, on_path=on_path, ob_timeout=30000)
    finally:
        D.WORKER.close()
    return {'paths': res.paths, 'decisions': res.decisions, 'queries': res.queries, 'obligations': res.obligations, 'discharged': res.discharged,
            'unknown': res.unknown[:10], 'maybe': res.maybe, 'aborted': res.aborted, 'exhausted': res.exhausted, 'outcomes': res.outcomes,
            'solver_s': res.solver_s, 'validated': validated[0], 'mismatches': mismatches[:5], 'cex': cex, 'unreproduced': unrepro[:5],
            'samples': samples, 'outside': outside[0], 'wall_s': time.time() - t0}


def judge(rec, template=None):
    """run the model text on the real code with the concrete inputs and evaluate the obligation on the real results"""
    rep = D.WORKER.ask({'program': rec['source'], 'inputs': rec['inputs'], 'libraries': rec['libraries']})
    rec['real'] = rep
    if rec['kind'] == 'fact':
        return (not rep['ok']), 'real run: %s' % ('ok' if rep['ok'] else '%s %s' % (rep['exc'], rep.get('msg')))
    if not rep['ok']:
        return False, 'real run failed with %s' % rep['exc']
    if template is None:
        template = z3.And(*z3.parse_smt2_string(rec['template_smt2']))
    env = {}
    for n_, v_ in (rec.get('input_values') or {}).items():      # incl. defined auxiliaries (square roots) of the model
        try:
            env[n_] = Fraction(v_) if isinstance(v_, str) else v_
        except ValueError:
            env[n_] = v_
    for name, spec in rec['inputs'].items():
        for i, (x, mk) in enumerate(zip(spec['data'], spec['mask'])):
            env['%s.d%d' % (name, i)] = Fraction(x)
            env['%s.m%d' % (name, i)] = bool(mk)
    for name, rr in rep['results'].items():
        if rr.get('data') is None:
            continue
        for i, x in enumerate(rr['data']):
            if isinstance(x, str):
                return True, 'real result %s cell %d is %s' % (name, i, x)
            env['%s.r.d%d' % (name, i)] = Fraction(x)
            env['%s.r.m%d' % (name, i)] = bool((rr['mask'] or [False] * len(rr['data']))[i])
    try:
        holds = geval(template, env)
    except EvalError as e:
        return False, 'template not evaluable on the real results: %s' % e
    return (not holds), 'obligation evaluated on the real results: %s' % holds


def replay(rec):
    ok, why = judge(rec)
    D.WORKER.close()
    return {'reproduced': ok, 'why': why, 'real': rec.get('real')}


def describe(tier):
    return {
        'level': 'model_checking',
        'functions': ['mpilot/program.py: Program.from_source, add_command, run', 'mpilot/commands.py: Command.run, result, validate_params, metadata',
                      'mpilot/params.py: clean() of every parameter class on parsed literals', 'mpilot/parser/parser.py (concrete model text)',
                      'execute() of every data command of basic.py / fuzzy.py'],
        'bounds': {
            'quick': 'producer->consumer pairs covering every built-in data command at least twice as producer and twice as consumer (chosen with VERIF_SEED: sampled), forward or reverse file order, '
                     'Metadata on some commands, a second consumer of the intermediate result; 12 sampled depth-3 chains / diamonds in shuffled file order; input arrays of 3 symbolic cells with symbolic masks (CurveZScore: 2); literal parameters',
            'thorough': 'ALL type-compatible producer->consumer pairs in both file orders; 120 sampled deeper shapes',
        },
        'outside': ['symbolic parameter values (parameters are concrete literals in the model text; C06-C08 vary them)', 'CSV/NetCDF input (C17/C18)', 'IEEE rounding',
                    'graphs deeper than 3 / wider than a diamond'],
        'assumptions': D.STUBS + ['leaves are verification-only input commands (mpv/nodes/mpvinputs.py) returning symbolic masked arrays; fuzzy-flagged leaves lie in [-1,1]',
                                  'reference = mpv/oracle.py applied bottom-up; a result cell is missing iff a cell it is computed from is missing or the operation is undefined',
                                  'every path model is replayed through the real from_source+run with real numpy (same model text)'],
    }
