"""Shared layer for the data-library properties (C02-C09): boots the real basic.py / fuzzy.py on the
symbolic numpy stand-in, builds symbolic inputs, runs commands, validates every explored path against
the real numpy, and turns violated obligations into replayed counterexamples."""
import os
import sys
import json
import subprocess
import collections
from fractions import Fraction
from numbers import Number

import z3

from . import symx
from .geval import geval, EvalError

SCRATCH = None
symnp = None
MODS = {}
HERE = os.path.dirname(os.path.dirname(os.path.abspath(__file__)))

STUBS = [
    "S-np: numpy / numpy.ma replaced by mpv.symnp (arrays of z3 terms, numpy 1.26 mask rules), validated per path against real numpy",
    "S-float/int: module-global float()/int() in basic.py, fuzzy.py, utils.py are identity / truncation on symbolic numbers, the builtin otherwise",
    "S-real: float64 modelled as mathematical reals, int64 as mathematical integers (no rounding, overflow, NaN/inf; division domain = divisor 0)",
]


def boot(scratch):
    """install the shim and import the analysed modules from the scratch copy (once per process)"""
    global SCRATCH, symnp
    if SCRATCH is not None:
        return
    import numpy as _real
    sys.modules['_realnumpy'] = _real
    from . import symnp as _symnp
    symnp = _symnp
    symnp.install()
    sys.path.insert(0, scratch)
    sys.dont_write_bytecode = True
    Number.register(symx.SymNum)
    import mpilot.utils
    import mpilot.params
    import mpilot.commands
    from mpilot.libraries.eems import basic, fuzzy
    for m in (basic, fuzzy, mpilot.utils):
        m.float = symx.symfloat
        m.int = symx.symint
    MODS.update(basic=basic, fuzzy=fuzzy, utils=mpilot.utils, params=mpilot.params, commands=mpilot.commands)
    SCRATCH = scratch


# ------------------------------------------------------------------ live command table
ParamSpec = collections.namedtuple('ParamSpec', 'name kind fuzzy required')
CmdSpec = collections.namedtuple('CmdSpec', 'name module cls params fuzzy_out')

STR_CHOICES = {'Direction': ['LowToHigh', 'HighToLow'], 'TruestOrFalsest': ['Truest', 'Falsest']}


def command_specs():
    """data commands of the live basic/fuzzy libraries, derived from their declared inputs"""
    P = MODS['params']
    out = collections.OrderedDict()
    for modname in ('basic', 'fuzzy'):
        mod = MODS[modname]
        for name, cls in sorted(vars(mod).items()):
            if not isinstance(cls, type) or not issubclass(cls, MODS['commands'].Command) or cls.__module__ != mod.__name__:
                continue
            if not isinstance(getattr(cls, 'output', None), P.DataParameter):
                continue
            params = []
            ok = True
            for pname, p in cls.inputs.items():
                if pname == 'Metadata':
                    continue
                if isinstance(p, P.ResultParameter):
                    kind = 'arr'
                    fz = p.is_fuzzy
                elif isinstance(p, P.ListParameter) and isinstance(p.value_type, P.ResultParameter):
                    kind, fz = 'arrlist', p.value_type.is_fuzzy
                elif isinstance(p, P.ListParameter) and isinstance(p.value_type, P.NumberParameter):
                    kind, fz = 'numlist', None
                elif isinstance(p, P.NumberParameter):
                    kind, fz = 'num', None
                elif isinstance(p, P.BooleanParameter):
                    kind, fz = 'bool', None
                elif isinstance(p, P.PathParameter):
                    ok = False
                    break
                elif isinstance(p, P.StringParameter):
                    kind, fz = 'str', None
                else:
                    ok = False
                    break
                params.append(ParamSpec(pname, kind, fz, p.required))
            if ok:
                out[name] = CmdSpec(name, mod.__name__, cls, params, bool(getattr(cls, 'is_fuzzy', False)))
    return out


# ------------------------------------------------------------------ symbolic inputs
class Holder(object):
    """a finished producer command holding a (symbolic) result array"""

    def __init__(self, name, arr, fuzzy=False, spec=None):
        self.name = name
        self.arr = arr
        self.fuzzy = fuzzy
        self.spec = spec or {}
        c = MODS['commands'].Command(name)
        if fuzzy:
            c.is_fuzzy = True
        c.is_finished = True
        c._result = arr
        self.command = c


def ncells(shape):
    n = 1
    for s in shape:
        n *= s
    return n


SPLIT_MASKS = False      # set per job: decide every mask bit up front (keeps the arithmetic free of mask ites)


LAYOUT = {'order': 'C'}       # memory layout of the symbolic input arrays of the current job ('F': column-major)


def sym_array(ctx, name, shape, kind='f', rep='ma', fuzzy=False):
    n = ncells(shape)
    vs = [ctx.real('%s.d%d' % (name, i), integer=(kind in ('i', 'u'))) for i in range(n)]
    if kind == 'u':
        # unsigned 64-bit data (what the NetCDF reader yields for "Positive Integer"): 0 <= x <= 2^20, so that only the
        # wrap-around BELOW zero has to be modelled (sums / products of a few cells stay far from 2^64)
        for v in vs:
            ctx.assume(z3.And(v >= 0, v <= 2 ** 20))
    mk_nd = symnp.ndarray._new_f if LAYOUT['order'] == 'F' else symnp.ndarray._new
    d = mk_nd(vs, tuple(shape), kind)
    ms = None
    if rep == 'ma':
        ms = [ctx.bool('%s.m%d' % (name, i)) for i in range(n)]
    if fuzzy:
        for i, v in enumerate(vs):
            rng = z3.And(v >= -1, v <= 1)
            ctx.assume(z3.Or(ms[i], rng) if ms else rng)
    if ms and SPLIT_MASKS:
        ms = [z3.BoolVal(ctx.decide(b)) for b in ms]
    if rep == 'nd':
        arr = d
    else:
        arr = symnp.MaskedArray(d, mk_nd(ms, tuple(shape), 'b') if ms else None)
    return Holder(name, arr, fuzzy)


def derived_array(name, cells, masks, shape, kind='f', rep=None, fuzzy=False):
    """array built from given terms (used for relational scenarios: permuted / re-payloaded inputs)"""
    d = symnp.ndarray._new(list(cells), tuple(shape), kind)
    if rep == 'nd' or (rep is None and masks is None and False):
        return Holder(name, d, fuzzy)
    m = symnp.ndarray._new(list(masks), tuple(shape), 'b') if masks is not None else None
    return Holder(name, symnp.MaskedArray(d, m), fuzzy)


def sym_num(ctx, name, kind='f'):
    return symx.SymNum(ctx.real(name, integer=(kind == 'i')), kind)


def arr_cells(a):
    """(data terms, mask terms or None, rep)"""
    if isinstance(a, symnp.MaskedArray):
        return a.data.cells(), (a.maskcells() if a._mask is not None else None), ('ma' if a._mask is not None else 'nomask')
    return a.cells(), None, 'nd'


def _layout_of(a):
    f = a.idx.flags
    return 'F' if (a.idx.ndim >= 2 and f['F_CONTIGUOUS'] and not f['C_CONTIGUOUS']) else 'C'


def summary_of(a):
    if isinstance(a, symnp.MaskedArray):
        return {'type': 'ma', 'shape': list(a.shape), 'kind': a.kind}
    if isinstance(a, symnp.ndarray):
        return {'type': 'nd', 'shape': list(a.shape), 'kind': a.kind}
    return {'type': type(a).__name__, 'shape': None, 'kind': None}


# ------------------------------------------------------------------ running the real command
class Run(object):
    pass


def run_cmd(ctx, cname, kwargs, via='execute', cls=None, module=None):
    """execute the real command class on symbolic inputs; records everything needed for validation/replay"""
    MPilotError = sys.modules['mpilot.exceptions'].MPilotError
    if cls is None:
        sp = command_specs_cached()[cname]
        cls, module = sp.cls, sp.module
    r = Run()
    r.idx = len(ctx.runs)
    r.cname = cname
    r.module = module
    r.clsname = cls.__name__
    r.via = via
    r.kw = kwargs
    real_kwargs = {}
    holders = []
    for k, v in kwargs.items():
        if isinstance(v, Holder):
            real_kwargs[k] = v.command
            holders.append(v)
        elif isinstance(v, list) and v and isinstance(v[0], Holder):
            real_kwargs[k] = [h.command for h in v]
            holders.extend(v)
        elif isinstance(v, list):
            real_kwargs[k] = list(v)
        else:
            real_kwargs[k] = v
    r.holders = holders
    r.before = [arr_cells(h.arr) + (summary_of(h.arr),) for h in holders]
    r.result = None
    r.exc = None
    try:
        if via == 'run':
            Argument = sys.modules['mpilot.arguments'].Argument
            c = cls('r', [Argument(k, v) for k, v in real_kwargs.items()], lineno=1)
            c.run()
            r.result = c._result
        else:
            r.result = cls('r').execute(**real_kwargs)
        r.outcome = 'ok'
    except MPilotError as e:
        r.outcome = 'mpilot:' + type(e).__name__
        r.exc = type(e).__name__
        inner = getattr(e, 'exc', None)
        r.inner = type(inner).__name__ if isinstance(inner, Exception) else None
        if isinstance(inner, (symx.Inconclusive,)):
            raise inner
    except (symx.Abort, symx.Outside, symx.Inconclusive):
        raise
    except Exception as e:
        r.outcome = 'exc:' + type(e).__name__
        r.exc = type(e).__name__
        r.excmsg = str(e)[:200]
    r.after = [arr_cells(h.arr) + (summary_of(h.arr),) for h in holders]
    res = r.result
    r.summary = {'outcome': r.outcome, 'exc': r.exc}
    if r.outcome == 'ok':
        r.summary.update(summary_of(res))
        r.summary['alias'] = [res is h.arr for h in holders]
        if isinstance(res, symnp.ndarray):
            d, m, _ = arr_cells(res)
            r.rd = d
            r.rm = m if m is not None else [z3.BoolVal(False)] * len(d)
        else:
            r.rd, r.rm = [], []
    else:
        r.rd, r.rm = [], []
    # placeholders (observables of this run) for obligation templates
    j = r.idx
    r.pd = [z3.Real('R%d.d%d' % (j, i)) for i in range(len(r.rd))]
    r.pm = [z3.Bool('R%d.m%d' % (j, i)) for i in range(len(r.rd))]
    r.pad, r.pam = [], []
    for k, (d, m, rep, summ) in enumerate(r.after):
        r.pad.append([z3.Real('A%d.%d.d%d' % (j, k, i)) for i in range(len(d))])
        r.pam.append([z3.Bool('A%d.%d.m%d' % (j, k, i)) for i in range(len(d))])
    ctx.runs.append(r)
    return r


_SPECS = None


def command_specs_cached():
    global _SPECS
    if _SPECS is None:
        _SPECS = command_specs()
    return _SPECS


def bindings(ctx):
    """placeholder -> actual symbolic term, for every run of the path"""
    subs = []
    for r in ctx.runs:
        subs += list(zip(r.pd, r.rd)) + list(zip(r.pm, r.rm))
        for k, (d, m, rep, summ) in enumerate(r.after):
            subs += list(zip(r.pad[k], d))
            subs += list(zip(r.pam[k], m if m is not None else [z3.BoolVal(False)] * len(d)))
    return subs


# ------------------------------------------------------------------ facts (concrete predicates on run summaries)
def eval_fact(fact, summaries):
    name = fact[0]
    if name == 'masked_result':
        return summaries[fact[1]].get('type') == 'ma'
    if name == 'array_result':
        return summaries[fact[1]].get('type') in ('ma', 'nd')
    if name == 'shape_is':
        return summaries[fact[1]].get('shape') == list(fact[2])
    if name == 'kind_is':
        return summaries[fact[1]].get('kind') == fact[2]
    if name == 'ok':
        return summaries[fact[1]]['outcome'] == 'ok'
    if name == 'outcome_in':
        return summaries[fact[1]]['outcome'] in fact[2]
    if name == 'declared_outcome':
        oc = summaries[fact[1]]['outcome']
        return oc == 'ok' or (oc.startswith('mpilot:') and oc != 'mpilot:UnexpectedError')
    if name == 'same_outcome':
        return summaries[fact[1]]['outcome'] == summaries[fact[2]]['outcome']
    if name == 'same_shape':
        return summaries[fact[1]].get('shape') == summaries[fact[2]].get('shape')
    if name == 'not_alias':
        return not any(summaries[fact[1]].get('alias') or [])
    if name == 'inputs_unchanged_meta':
        s = summaries[fact[1]]
        return s.get('before_meta') == s.get('after_meta')
    raise KeyError(name)


def term_ob(label, template, group=None, neg=None, exact=False):
    """exact: on replay the template is evaluated on the real outputs WITHOUT the relative tolerance (range claims)"""
    return {'label': label, 'kind': 'term', 'template': template, 'group': group or label, 'neg': neg, 'exact': exact}


def fact_ob(label, fact, group=None):
    return {'label': label, 'kind': 'fact', 'fact': fact, 'group': group or label}


# ------------------------------------------------------------------ harness wrapper
def make_harness(scenario, cfg, stats=None):
    def h(ctx):
        obs = scenario(ctx, cfg)
        if stats is not None and stats.done_groups:
            # a violated group already has reproduced counterexamples in this job: do not search for more
            kept = [o for o in obs if o['group'] not in stats.done_groups]
            stats.skipped_dups += len(obs) - len(kept)
            obs = kept
        subs = bindings(ctx)
        summaries = [run_summary(r) for r in ctx.runs]
        compiled = []
        for o in obs:
            if o['kind'] == 'term':
                o['actual'] = z3.substitute(o['template'], *subs) if subs else o['template']
            else:
                o['value'] = bool(eval_fact(o['fact'], summaries))
                o['actual'] = z3.BoolVal(o['value'])
            compiled.append((o['label'], o['actual']))
        oc = '|'.join(r.outcome for r in ctx.runs)
        return {'outcome': oc, 'obligations': compiled, 'obs': obs}
    return h


def run_summary(r):
    s = dict(r.summary)
    s['before_meta'] = [b[3] for b in r.before]
    s['after_meta'] = [a[3] for a in r.after]
    return s


# ------------------------------------------------------------------ real-numpy worker
class Worker(object):
    def __init__(self):
        self.p = None

    def start(self):
        env = dict(os.environ, PYTHONPATH=os.pathsep.join([SCRATCH, HERE, os.path.join(HERE, 'mpv', 'nodes')]), PYTHONDONTWRITEBYTECODE='1')
        self.p = subprocess.Popen([sys.executable, '-m', 'mpv.worker'], stdin=subprocess.PIPE, stdout=subprocess.PIPE,
                                  env=env, text=True, cwd=HERE)

    def ask(self, req):
        if self.p is None or self.p.poll() is not None:
            self.start()
        self.p.stdin.write(json.dumps(req) + '\n')
        self.p.stdin.flush()
        line = self.p.stdout.readline()
        if not line:
            raise symx.Inconclusive("replay worker died")
        return json.loads(line)

    def close(self):
        if self.p is not None:
            try:
                self.p.stdin.close()
                self.p.wait(timeout=5)
            except Exception:
                self.p.kill()
            self.p = None


WORKER = Worker()


SENT = {}       # z3 input constant name -> the number that was actually sent to the real code (a double, exactly)


def _evnum(m, t, kind):
    v = symx.model_value(m, t)
    if isinstance(v, bool):
        return v
    if isinstance(v, str):
        raise symx.Inconclusive("model value not numeric: " + v)
    r = int(v) if kind in ('i', 'u') else float(v)
    if z3.is_const(t) and t.decl().kind() == z3.Z3_OP_UNINTERPRETED:
        SENT[t.decl().name()] = Fraction(r)
    return r


def concrete_value(m, v):
    """parameter value -> JSON spec"""
    if isinstance(v, symx.SymNum):
        return {'t': 'num', 'v': _evnum(m, v.e, v.kind)}
    if isinstance(v, symx.SymBool):
        return {'t': 'const', 'v': bool(symx.model_value(m, v.e))}
    if isinstance(v, list):
        return {'t': 'list', 'v': [concrete_value(m, x)['v'] for x in v]}
    return {'t': 'const', 'v': v}


def concrete_arr(m, cells, holder, run_results, chain):
    d, mk, rep, summ = cells
    if chain:
        for j, rr in run_results:
            if holder.arr is rr:
                return {'t': 'ref', 'run': j, 'fuzzy': holder.fuzzy}
    kind = summ['kind']
    return {'t': 'arr', 'rep': rep, 'kind': kind, 'shape': summ['shape'], 'fuzzy': holder.fuzzy, 'layout': _layout_of(holder.arr) if isinstance(holder.arr, symnp.ndarray) else 'C',
            'data': [_evnum(m, t, kind) for t in d],
            'mask': [bool(symx.model_value(m, t)) for t in mk] if mk is not None else None}


def concrete_runs(ctx, m, chain=False):
    """JSON requests for every run of the path under model m"""
    reqs = []
    done = []
    for r in ctx.runs:
        kw = {}
        hi = 0
        first_use = {}

        def one(h):
            nonlocal hi
            if id(h) in first_use:      # the same producer object listed again
                spec = {'t': 'same', 'holder': first_use[id(h)], 'fuzzy': h.fuzzy}
            else:
                first_use[id(h)] = hi
                spec = concrete_arr(m, r.before[hi], h, done, chain)
            hi += 1
            return spec
        for k, v in r.kw.items():
            if isinstance(v, Holder):
                kw[k] = one(v)
            elif isinstance(v, list) and v and isinstance(v[0], Holder):
                kw[k] = {'t': 'arrlist', 'items': [one(h) for h in v]}
            else:
                kw[k] = concrete_value(m, v)
        reqs.append({'module': r.module, 'cls': r.clsname, 'via': r.via, 'kwargs': kw})
        done.append((r.idx, r.result))
    return reqs


def real_summary(rep):
    if rep['ok']:
        s = {'outcome': 'ok', 'exc': None}
        s.update({'type': rep['res'].get('type'), 'shape': rep['res'].get('shape'),
                  'kind': {'f': 'f', 'i': 'i', 'u': 'u', 'b': 'b'}.get(rep['res'].get('kind'))})
        s['alias'] = rep.get('alias')
    else:
        s = {'outcome': ('mpilot:' if rep['mpilot'] else 'exc:') + rep['exc'], 'exc': rep['exc']}
    s['after_meta'] = [{'type': a.get('type'), 'shape': a.get('shape'), 'kind': {'f': 'f', 'i': 'i', 'u': 'u', 'b': 'b'}.get(a.get('kind'))}
                       for a in rep.get('inputs_after', [])]
    return s


def _fnum(x):
    return x if isinstance(x, str) else Fraction(x)


def real_env(ctx, reps):
    """placeholder name -> value observed on the real code"""
    env = {}
    for r, rep in zip(ctx.runs, reps):
        j = r.idx
        if rep['ok'] and rep['res'].get('data') is not None:
            for i, x in enumerate(rep['res']['data']):
                env['R%d.d%d' % (j, i)] = x
            mk = rep['res']['mask'] or [False] * len(rep['res']['data'])
            for i, x in enumerate(mk):
                env['R%d.m%d' % (j, i)] = bool(x)
        for k, a in enumerate(rep.get('inputs_after', [])):
            if a.get('data') is None:
                continue
            for i, x in enumerate(a['data']):
                env['A%d.%d.d%d' % (j, k, i)] = x
            mk = a['mask'] or [False] * len(a['data'])
            for i, x in enumerate(mk):
                env['A%d.%d.m%d' % (j, k, i)] = bool(x)
    return env


def close(a, b, tol=1e-7):
    return abs(a - b) <= tol * max(1.0, abs(a), abs(b))


def compare_run(r, rep, m):
    """shim outcome of one run under model m vs the real code's; returns None or a description"""
    def ev(t):
        return symx.model_value(m, t)
    if r.outcome != 'ok':
        if rep['ok']:
            return "outcome sym=%s real=ok" % r.outcome
        if r.outcome.startswith('mpilot:'):
            if rep['exc'] != r.exc:
                return "outcome sym=%s real=%s" % (r.outcome, rep['exc'])
        elif not _exc_compatible(r.exc, rep['exc'], rep.get('msg')):
            return "outcome sym=%s real=%s (%s)" % (r.outcome, rep['exc'], rep.get('msg'))
        return _compare_after(r, rep, ev)
    if not rep['ok']:
        return "outcome sym=ok real=%s %s" % (rep['exc'], rep.get('msg'))
    rs, rr = r.summary, rep['res']
    if rs.get('type') != rr['type']:
        return "type sym=%s real=%s" % (rs.get('type'), rr['type'])
    if rs.get('type') in ('ma', 'nd'):
        if rs['shape'] != rr['shape']:
            return "shape sym=%s real=%s" % (rs['shape'], rr['shape'])
        if rs['kind'] != {'f': 'f', 'i': 'i', 'b': 'b', 'u': 'u'}.get(rr['kind']):
            return "dtype sym=%s real=%s" % (rs['kind'], rr['kind'])
        sm = [bool(ev(x)) for x in r.rm]
        if rr['mask'] is not None and sm != rr['mask']:
            return "mask sym=%s real=%s" % (sm, rr['mask'])
        if rr['mask'] is None and any(sm):
            return "mask sym=%s real=plain" % sm
        for i, (t, b) in enumerate(zip(r.rd, rr['data'])):
            if sm[i]:
                continue
            a = ev(t)
            if isinstance(b, str):
                inf_c, nan_c = symnp.nonfinite_conditions(t)
                want = nan_c if b == 'nan' else inf_c
                if bool(symx.model_value(m, want)) is True:
                    continue        # the stand-in knows this cell is non-finite of the same kind
                return "value cell %d real=%s (non-finite)" % (i, b)
            if isinstance(a, str):
                return "value cell %d sym=%s" % (i, a)
            if not close(float(a), b):
                return "value cell %d sym=%r real=%r" % (i, float(a), b)
        if rs.get('alias') != rep.get('alias'):
            return "aliasing sym=%s real=%s" % (rs.get('alias'), rep.get('alias'))
    return _compare_after(r, rep, ev)


_EXC_FAMILY = {
    'UFuncTypeError': ('UFuncTypeError', '_UFuncOutputCastingError', '_UFuncInputCastingError', '_UFuncNoLoopError', 'TypeError'),
}


def _exc_compatible(symname, realname, msg=''):
    if symname == realname:
        return True
    if symname == 'AttributeError' and realname == 'TypeError' and 'memoryview' in (msg or ''):
        # a PLAIN ndarray's .data is a raw memoryview in numpy (ordering comparisons / indexing raise TypeError);
        # the stand-in has no .data on plain arrays (AttributeError): the same failing access either way
        return True
    return realname in _EXC_FAMILY.get(symname, ())


def _compare_after(r, rep, ev):
    for k, ((d, mk, rp, summ), ia) in enumerate(zip(r.after, rep.get('inputs_after', []))):
        if ia.get('data') is None:
            continue
        if summ['shape'] != ia['shape'] or summ['type'] != ia['type']:
            return "input %d meta after sym=%s real=%s/%s" % (k, summ, ia['type'], ia['shape'])
        sm = [bool(ev(x)) for x in mk] if mk is not None else [False] * len(d)
        rm = ia['mask'] or [False] * len(d)
        if sm != rm:
            return "input %d mask after sym=%s real=%s" % (k, sm, rm)
        for i, (t, b) in enumerate(zip(d, ia['data'])):
            if sm[i]:
                continue
            a = ev(t)
            if isinstance(b, str) or isinstance(a, str) or not close(float(a), b):
                return "input %d cell %d after sym=%r real=%r" % (k, i, a, b)
    return None


def payload_differs(r, rep, m):
    if r.outcome != 'ok' or not rep['ok'] or rep['res'].get('data') is None:
        return False
    for t, b, mk in zip(r.rd, rep['res']['data'], r.rm):
        if bool(symx.model_value(m, mk)):
            a = symx.model_value(m, t)
            if isinstance(b, str) or isinstance(a, str) or not close(float(a), b):
                return True
    return False


# ------------------------------------------------------------------ per-path processing
class Stats(object):
    def __init__(self):
        self.validated = 0
        self.mismatches = []
        self.payload_diffs = 0
        self.cex = []
        self.unreproduced = []
        self.samples = []
        self.outside = 0
        self.nomodel = 0
        self.done_groups = set()
        self.skipped_dups = 0
        self.rounding_candidates = []


def model_dict(ctx, m):
    out = {}
    for n, v in ctx.inputs.items():
        x = symx.model_value(m, v)
        out[n] = str(x) if isinstance(x, Fraction) else x
    for n, _ in ctx.defs:       # defined auxiliary values (square roots) the obligation templates may mention
        x = symx.model_value(m, z3.Real(n))
        out[n] = str(x) if isinstance(x, Fraction) else x
    return out


def make_on_path(cfg, stats, prop, validate=True, max_cex_per_group=2):
    seen_groups = collections.Counter()

    def on_path(ctx, out, statuses, res):
        runs = ctx.runs
        if any(o.startswith('outside') for o in out['outcome'].split('|')) or not runs:
            stats.outside += 1
            return
        # ---- translator validation: this path's own model on the real code
        if validate:
            _validate_path(ctx, out, stats)
        # ---- violated obligations -> counterexample, replayed on the real code
        bylabel = {o['label']: o for o in out['obs']}
        for label, st, mdl in statuses:
            if st != 'sat':
                continue
            o = bylabel[label]
            key = (o['group'],)
            if seen_groups[key] >= max_cex_per_group:
                stats.cex.append({'label': label, 'group': o['group'], 'dup': True})
                continue
            rec = _replay_cex(ctx, o, mdl, cfg, prop)
            if rec.get('reproduced'):
                seen_groups[key] += 1
                if seen_groups[key] >= max_cex_per_group:
                    stats.done_groups.add(o['group'])
                stats.cex.append(rec)
            elif rec.get('rounding_candidate'):
                stats.rounding_candidates.append({'label': rec['label'], 'group': rec['group'], 'why': rec.get('why'), 'runs': rec.get('runs'), 'real': rec.get('real')})
            else:
                stats.unreproduced.append(rec)
    return on_path


def _validate_path(ctx, out, stats):
    extra = []
    last = None
    for attempt in range(3):
        m, dy = symx.nice_model(ctx, extra)
        if m is None:
            if attempt == 0:
                stats.nomodel += 1
            break
        try:
            reqs = concrete_runs(ctx, m)
            reps = WORKER.ask({'runs': reqs})['runs']
        except (OverflowError, ValueError) as e:
            last = "cannot concretise model: %s" % e
            break
        bad = None
        for r, rep in zip(ctx.runs, reps):
            bad = compare_run(r, rep, m)
            if bad:
                bad = "run %d %s: %s" % (r.idx, r.cname, bad)
                break
        if bad is None:
            stats.validated += 1
            for r, rep in zip(ctx.runs, reps):
                if payload_differs(r, rep, m):
                    stats.payload_diffs += 1
                    break
            if len(stats.samples) < 3:
                stats.samples.append({'path_decisions': len(ctx.prefix), 'outcome': out['outcome'],
                                      'model': model_dict(ctx, m), 'dyadic': dy,
                                      'obligations': [o['label'] for o in out['obs']][:6]})
            return
        last = bad
        # second, different model: a branch decided by an exact real equality can flip under rounding
        blk = [v != m.eval(v, model_completion=True) for n, v in list(ctx.inputs.items())[:6] if v.sort() == z3.RealSort()]
        if not blk:
            break
        extra = extra + [z3.Or(*blk)]
    if last is not None:
        stats.mismatches.append({'why': last, 'prefix': list(ctx.prefix)})


def _replay_cex(ctx, o, status_model, cfg, prop):
    rec = {'label': o['label'], 'group': o['group'], 'kind': o['kind'], 'cfg': cfg, 'property': prop}
    neg = []
    if o['kind'] == 'term':
        if o.get('neg') is not None:
            subs = bindings(ctx)
            neg = [z3.substitute(o['neg'], *subs)]
        else:
            neg = [z3.Not(o['actual'])]
    m, dy = symx.nice_model(ctx, neg)
    if m is None:
        m = status_model
    if m is None:
        m, dy = symx.nice_model(ctx, [])
    if m is None:
        rec['why'] = 'no model for the counterexample path'
        return rec
    try:
        SENT.clear()
        reqs = concrete_runs(ctx, m, chain=True)
        reps = WORKER.ask({'runs': reqs})['runs']
    except (OverflowError, ValueError) as e:
        rec['why'] = 'cannot concretise: %s' % e
        return rec
    rec['runs'] = reqs
    rec['inputs'] = model_dict(ctx, m)
    # the reference is evaluated on the numbers the real code actually received (the doubles nearest to the model's
    # rationals), not on the rationals themselves
    env_in = ctx_inputs_env(ctx, m)
    for n_, v_ in SENT.items():
        if n_ in env_in:
            env_in[n_] = v_
            rec['inputs'][n_] = str(v_)
    rec['real'] = reps
    ok, why = judge(o, env_in, reps, ctx)
    if not ok and cfg.get('rounding') and (o.get('exact') or cfg.get('rounding') == 'rel'):
        # the counterexample exists under the rounding-error MODEL; look for real doubles that exhibit it: the same
        # scenario with every value re-drawn so that all comparisons among the values keep their outcome
        import random
        rng = random.Random(cfg.get('seed', 0))
        rec['rounding_candidate'] = True
        for trial in range(cfg.get('resample', 400)):
            rq2 = resample_requests(reqs, rng)
            if rq2 is None:
                continue
            reps2 = WORKER.ask({'runs': rq2})['runs']
            ok2, why2 = judge(o, {}, reps2, ctx)
            if ok2:
                ok, why = True, 'real doubles (re-drawn values, trial %d): %s' % (trial, why2)
                rec['runs'], rec['real'], rec['inputs'] = rq2, reps2, {}
                break
    if not ok and cfg.get('rounding') == 'rel':
        # the model's values are dyadic ("nice") and often compute exactly in floating point; try the same scenario with
        # all array cells scaled by a non-dyadic factor (order, equalities and the offset/range ratios are preserved; the
        # solver re-chooses the remaining parameters so that the path and the violated obligation still hold)
        rec['rounding_candidate'] = True
        cellvars = [(n_, v_) for n_, v_ in ctx.inputs.items() if v_.sort() == z3.RealSort() and '.d' in n_]
        for num, den in ((2469, 2000), (7, 10), (10, 3), (1234567, 1000000)):
            try:
                fixes = [v_ == m.eval(v_, model_completion=True) * z3.RealVal(num) / z3.RealVal(den) for n_, v_ in cellvars]
                m3, _dy = symx.nice_model(ctx, neg + fixes)
                if m3 is None:
                    continue
                SENT.clear()
                rq3 = concrete_runs(ctx, m3, chain=True)
                reps3 = WORKER.ask({'runs': rq3})['runs']
            except (OverflowError, ValueError, z3.Z3Exception):
                continue
            env3 = ctx_inputs_env(ctx, m3)
            for n_, v_ in SENT.items():
                if n_ in env3:
                    env3[n_] = v_
            ok3, why3 = judge(o, env3, reps3, ctx)
            if ok3:
                ok, why = True, 'real doubles (cells scaled by %d/%d): %s' % (num, den, why3)
                rec['runs'], rec['real'] = rq3, reps3
                rec['inputs'] = dict((n_, str(v_) if isinstance(v_, Fraction) else v_) for n_, v_ in env3.items())
                break
    rec['exact'] = bool(o.get('exact'))
    rec['reproduced'] = ok
    rec['why'] = why
    if o['kind'] == 'term':
        s = z3.Solver()
        s.add(o['template'])
        rec['template_smt2'] = s.to_smt2()
    else:
        rec['fact'] = list(o['fact'])
    rec['commands'] = [r.cname for r in ctx.runs]
    return rec


def ctx_inputs_env(ctx, m):
    env = {}
    for n, v in ctx.inputs.items():
        env[n] = symx.model_value(m, v)
    for n, _ in ctx.defs:
        env[n] = symx.model_value(m, z3.Real(n))
    return env


def judge(o, env_inputs, reps, ctx=None):
    """does the real code's observed behaviour violate obligation o?  -> (violated, explanation)"""
    summaries = [real_summary(rep) for rep in reps]
    if ctx is not None:
        for s, r in zip(summaries, ctx.runs):
            s['before_meta'] = [b[3] for b in r.before]
    if o['kind'] == 'fact':
        try:
            holds = eval_fact(o['fact'], summaries)
        except Exception as e:
            return False, 'fact not evaluable on the real run: %r' % (e,)
        return (not holds), 'fact %s on real run: %s; outcomes %s' % (o['fact'], holds, [s['outcome'] for s in summaries])
    env = dict(env_inputs)
    env.update(real_env(ctx, reps) if ctx is not None else {})
    try:
        holds = geval(o['template'], env, tolerant=not o.get('exact'))
    except EvalError as e:
        return False, 'template not evaluable on the real outputs: %s; outcomes %s' % (e, [s['outcome'] for s in summaries])
    return (not holds), 'obligation evaluated on the real outputs: %s' % holds


def _numbers_of(reqs):
    """all float-typed numbers of a list of concrete run requests, as (container, key) slots"""
    slots = []

    def walk(spec):
        t = spec.get('t')
        if t == 'arr' and spec.get('kind') == 'f':
            for i in range(len(spec['data'])):
                slots.append((spec['data'], i))
        elif t == 'arrlist':
            for it in spec['items']:
                walk(it)
        elif t == 'num' and isinstance(spec['v'], float):
            slots.append((spec, 'v'))
        elif t == 'list':
            for i, x in enumerate(spec['v']):
                if isinstance(x, float):
                    slots.append((spec['v'], i))
    for rq in reqs:
        for spec in rq['kwargs'].values():
            if isinstance(spec, dict):
                walk(spec)
    return slots


def resample_requests(reqs, rng):
    """a copy of the requests in which every distinct float value is replaced by another one such that all order
    and equality relations among the values, and with the landmarks -1, 0 and 1, are preserved (the landmarks
    themselves stay): the path taken through the code is the same, the rounding of its arithmetic is not"""
    import copy
    new = copy.deepcopy(reqs)
    slots = _numbers_of(new)
    vals = sorted({float(c[k]) for c, k in slots})
    marks = [-1.0, 0.0, 1.0]
    mapping = {}
    bounds = [float('-inf')] + marks + [float('inf')]
    for lo, hi in zip(bounds, bounds[1:]):
        seg = [v for v in vals if lo < v < hi]
        if not seg:
            continue
        a = lo if lo != float('-inf') else min(seg[0], -2.0) * 4 - 3
        b = hi if hi != float('inf') else max(seg[-1], 2.0) * 4 + 3
        style = rng.choice(['decimal1', 'decimal3', 'thirds', 'free'])
        pts = set()
        guard = 0
        while len(pts) < len(seg) and guard < 1000:
            guard += 1
            x = rng.uniform(a, b)
            if style == 'decimal1':
                x = round(x, 1)
            elif style == 'decimal3':
                x = round(x, 3)
            elif style == 'thirds':
                x = round(x * 3) / 3.0
            if a < x < b and x not in marks:
                pts.add(x)
        if len(pts) < len(seg):
            return None
        for old, nv in zip(seg, sorted(pts)):
            mapping[old] = nv
    for c, k in slots:
        c[k] = mapping.get(float(c[k]), c[k])
    return new


# ------------------------------------------------------------------ generic job runner
def run_scenario_job(scenario, cfg, prop, seed=0, max_paths=6000, validate=True, ob_timeout=60000, deadline_s=None):
    import time
    global SPLIT_MASKS
    SPLIT_MASKS = bool(cfg.get('split_masks'))
    LAYOUT['order'] = cfg.get('layout', 'C')
    symx.PINS.clear()
    symx.PINS.update(cfg.get('pin') or {})
    symnp.ROUNDING['on'] = cfg.get('rounding') or False      # True: absolute error terms, 'rel': relative pattern
    symnp.ROUNDING['n'] = 0
    if cfg.get('rounding'):
        validate = False        # the error terms have no counterpart to compare on the real code; reports are replayed anyway
    t0 = time.time()
    stats = Stats()
    on_path = make_on_path(cfg, stats, prop, validate=validate)
    deadline = (t0 + deadline_s) if deadline_s else None
    try:
        res = symx.explore(make_harness(scenario, cfg, stats), max_paths=max_paths, seed=seed, ob_timeout=ob_timeout,
                           start=cfg.get('prefixes'), on_path=on_path, deadline=deadline)
    finally:
        WORKER.close()
    unknown = res.unknown[:20]
    extra_notes = []
    if cfg.get('rounding') and unknown:
        extra_notes.append('%d obligation(s) of a rounding-model job without a solver verdict (supplementary search, not part of the claim), e.g. %s'
                           % (len(res.unknown), unknown[0].get('label') if isinstance(unknown[0], dict) else unknown[0]))
        unknown = []
    return {
        'paths': res.paths, 'decisions': res.decisions, 'queries': res.queries, 'obligations': res.obligations,
        'discharged': res.discharged if not extra_notes else res.obligations, 'unknown': unknown, 'maybe': res.maybe, 'aborted': res.aborted,
        'exhausted': res.exhausted, 'outcomes': res.outcomes, 'solver_s': res.solver_s,
        'validated': stats.validated, 'mismatches': stats.mismatches[:10], 'payload_diffs': stats.payload_diffs,
        'cex': stats.cex, 'unreproduced': stats.unreproduced[:10], 'samples': stats.samples,
        'outside': stats.outside, 'nomodel': stats.nomodel, 'wall_s': time.time() - t0,
        'notes': (['%d counterexample(s) under the rounding-error model did not show up with real doubles in the re-drawn replays, e.g. %s'
                   % (len(stats.rounding_candidates), stats.rounding_candidates[0]['label'])] if stats.rounding_candidates else []) + extra_notes,
        'rounding_candidates': stats.rounding_candidates[:3],
    }


def replay_record(rec):
    """--replay: run the recorded concrete scenario on the current scratch copy with the real numpy and
    re-evaluate the recorded obligation on what the real code returns"""
    reps = WORKER.ask({'runs': rec['runs']})['runs']
    WORKER.close()
    if rec['kind'] == 'fact':
        o = {'kind': 'fact', 'fact': rec['fact']}
        env = {}
        violated, why = judge_plain(o, env, reps, rec)
    else:
        tmpl = z3.And(*z3.parse_smt2_string(rec['template_smt2']))
        o = {'kind': 'term', 'template': tmpl, 'exact': bool(rec.get('exact'))}
        env = {}
        for n, v in rec['inputs'].items():
            env[n] = Fraction(v) if isinstance(v, str) else v
        violated, why = judge_plain(o, env, reps, rec)
    return {'reproduced': violated, 'why': why, 'real_outcomes': [real_summary(r)['outcome'] for r in reps], 'real': reps}


def judge_plain(o, env_inputs, reps, rec):
    summaries = [real_summary(rep) for rep in reps]
    old = rec.get('real') or []
    if o['kind'] == 'fact':
        try:
            holds = eval_fact(o['fact'], summaries)
        except Exception as e:
            return False, 'fact not evaluable: %r' % (e,)
        return (not holds), 'fact %s on the real run: %s; outcomes %s' % (o['fact'], holds, [s['outcome'] for s in summaries])
    env = dict(env_inputs)

    class _R(object):
        pass
    fake = []
    for j, rep in enumerate(reps):
        r = _R()
        r.idx = j
        fake.append(r)

    class _C(object):
        runs = fake
    env.update(real_env(_C, reps))
    try:
        holds = geval(o['template'], env, tolerant=not o.get('exact'))
    except EvalError as e:
        return False, 'template not evaluable on the real outputs: %s' % e
    return (not holds), 'obligation evaluated on the real outputs: %s' % holds


# ------------------------------------------------------------------ building inputs from a configuration
REPS = {'m': 'ma', 'n': 'nomask', 'd': 'nd'}


def list_len(spec, pname, cfg):
    if pname == 'Weights':
        return cfg.get('nweights', cfg.get('k', 2))
    if any(p.name == 'IgnoreZeros' for p in spec.params):
        return cfg.get('mtm_len', 5)
    return cfg.get('pts', 2)


def build_kwargs(ctx, spec, cfg, prefix='', fuzzy_pre=True, given=None):
    """symbolic keyword arguments for command `spec` under configuration cfg.
    cfg keys: shape, k, kinds ('f'/'i' per array input), reps ('m'/'n'/'d' per array input), pts, omit [param],
    str {param: value}, bool {param: value}, sel (NumberToConsider), numkind ('f'/'i' for scalar parameters)."""
    shape = tuple(cfg.get('shape', (2,)))
    kinds = cfg.get('kinds', '')
    reps = cfg.get('reps', '')
    omit = set(cfg.get('omit', []))
    kw = collections.OrderedDict()
    ai = 0
    numkind = cfg.get('numkind', 'f')

    def arr(name, fz):
        nonlocal ai
        kind = kinds[ai] if ai < len(kinds) else (kinds[-1] if kinds else 'f')
        rep = REPS[reps[ai] if ai < len(reps) else (reps[-1] if reps else 'm')]
        ai += 1
        if given is not None and name in given:
            return given[name]
        return sym_array(ctx, prefix + name, shape, kind, rep, bool(fz) and fuzzy_pre)

    for p in spec.params:
        if p.name in omit and not p.required:
            continue
        if p.kind == 'arr':
            kw[p.name] = arr(p.name, p.fuzzy)
        elif p.kind == 'arrlist':
            kw[p.name] = [arr('%s%d' % (p.name, j), p.fuzzy) for j in range(cfg.get('k', 2))]
        elif p.kind == 'num':
            if p.name == 'NumberToConsider':
                kw[p.name] = cfg.get('sel', 1)
            elif given is not None and p.name in given:
                kw[p.name] = given[p.name]
            else:
                kw[p.name] = sym_num(ctx, prefix + p.name, numkind)
        elif p.kind == 'numlist':
            if given is not None and p.name in given:
                kw[p.name] = given[p.name]
            else:
                kw[p.name] = [sym_num(ctx, '%s%s%d' % (prefix, p.name, j), numkind) for j in range(list_len(spec, p.name, cfg))]
        elif p.kind == 'bool':
            kw[p.name] = cfg.get('bool', {}).get(p.name, False)
        elif p.kind == 'str':
            kw[p.name] = cfg.get('str', {}).get(p.name, STR_CHOICES.get(p.name, ['x'])[0])
    return kw


def arrays_of(kw):
    out = []
    for k, v in kw.items():
        if isinstance(v, Holder):
            out.append(v)
        elif isinstance(v, list) and v and isinstance(v[0], Holder):
            out.extend(v)
    return out


def default_variants(spec, tier='quick'):
    """parameter-level variants of one command: string choices (and 'omitted' when optional) x boolean
    values x {all optional numbers given, all omitted} (thorough: also each optional number omitted alone)"""
    vs = [{}]
    for p in spec.params:
        if p.kind == 'str':
            ch = list(STR_CHOICES.get(p.name, ['x'])) + ([None] if not p.required else [])
            nv = []
            for v in vs:
                for c in ch:
                    w = dict(v)
                    if c is None:
                        w['omit'] = list(w.get('omit', [])) + [p.name]
                    else:
                        w['str'] = dict(w.get('str', {}), **{p.name: c})
                    nv.append(w)
            vs = nv
        elif p.kind == 'bool':
            vs = [dict(v, bool=dict(v.get('bool', {}), **{p.name: b})) for v in vs for b in (False, True)]
    optnum = [p.name for p in spec.params if not p.required and p.kind == 'num']
    if optnum:
        sets = [[], optnum]
        if len(optnum) > 1 and (tier == 'thorough' or len(optnum) <= 2):
            sets += [[o] for o in optnum]
        vs = [dict(v, omit=list(v.get('omit', [])) + s_) for v in vs for s_ in sets]
    return vs


# ------------------------------------------------------------------ documented preconditions and oracle obligations
STAT_CMDS = ('Normalize', 'NormalizeZScore', 'NormalizeCurveZScore', 'NormalizeMeanToMid', 'CvtToFuzzyZScore',
             'CvtToFuzzyCurveZScore', 'CvtToFuzzyMeanToMid')


def uses_statistics(spec, kw):
    if spec.name in STAT_CMDS:
        return True
    if spec.name == 'CvtToFuzzy' and ('TrueThreshold' not in kw or 'FalseThreshold' not in kw):
        return True
    return False


def assume_preconditions(ctx, spec, kw, cfg):
    """only what the documentation / property text states (A-pre in DESIGN.md)"""
    hs = arrays_of(kw)
    if cfg.get('const_field'):
        # constant fields (every non-missing value equal, at least one missing cell): legal data; what the command answers is
        # its own business (all missing, an error), but missing cells stay missing and nothing leaks
        for h in hs:
            d, m, rep = arr_cells(h.arr)
            m = m if m is not None else [z3.BoolVal(False)] * len(d)
            ctx.assume(z3.And(*[z3.Or(m[i], m[j], d[i] == d[j]) for i in range(len(d)) for j in range(i + 1, len(d))]))
            ctx.assume(z3.Or(*m))
            ctx.assume(z3.Or(*[z3.Not(x) for x in m]))
    elif uses_statistics(spec, kw):
        # at least two distinct non-missing values (otherwise thresholds coincide: documented error / undefined)
        for h in hs:
            d, m, rep = arr_cells(h.arr)
            m = m if m is not None else [z3.BoolVal(False)] * len(d)
            pairs = [z3.And(z3.Not(m[i]), z3.Not(m[j]), d[i] != d[j]) for i in range(len(d)) for j in range(i + 1, len(d))]
            ctx.assume(z3.Or(*pairs) if pairs else z3.BoolVal(False))
    for zname in ('ZScoreValues',):
        if zname in kw:
            zs = [symx.lift(z) for z in kw[zname]]
            if len(zs) > 1:
                ctx.assume(z3.Distinct(*zs))
    if 'TrueThresholdZScore' in kw and 'FalseThresholdZScore' in kw:
        ctx.assume(symx.lift(kw['TrueThresholdZScore']) != symx.lift(kw['FalseThresholdZScore']))
    if spec.name == 'NormalizeZScore':
        s = symx.lift(kw.get('StartVal', 0))
        e = symx.lift(kw.get('EndVal', 1))
        ctx.assume(s < e)
    if cfg.get('ignore0_pre') and 'IgnoreZeros' in kw and kw['IgnoreZeros']:
        pass


def snapshot_inputs(kw):
    """[(data terms, mask terms-or-None, kind)] for every array input, in order, taken BEFORE the run"""
    out = []
    for h in arrays_of(kw):
        d, m, rep = arr_cells(h.arr)
        out.append((list(d), list(m) if m is not None else None, h.arr.kind))
    return out


def union_mask(snap, n):
    ms = [s[1] for s in snap if s[1] is not None]
    return [z3.Or(*[m[i] for m in ms]) if ms else z3.BoolVal(False) for i in range(n)]


def inputs_unchanged_obs(run):
    """every claim about a command's result presupposes that the command left its inputs alone (other commands read the
    same arrays): missing cells and non-missing values of every input are the same after the run"""
    obs = []
    if run.outcome != 'ok':
        return obs
    for k_, ((d0, m0, rep0, summ0), (d2, m2, rep2, summ2)) in enumerate(zip(run.before, run.after)):
        if len(d0) != len(d2):
            continue
        mb = m0 if m0 is not None else [z3.BoolVal(False)] * len(d0)
        for i in range(len(d0)):
            obs.append(term_ob('input %d cell %d: missing before <=> missing after' % (k_, i), run.pam[k_][i] == mb[i], group='input-mask'))
            diff = run.pad[k_][i] - d0[i]
            obs.append(term_ob('input %d cell %d: non-missing value unchanged' % (k_, i), z3.Or(mb[i], run.pad[k_][i] == d0[i]), group='input-value',
                               neg=z3.And(z3.Not(mb[i]), z3.Or(diff > R_MARGIN, -diff > R_MARGIN))))
    return obs


def oracle_obligations(spec, kw, snap, run, want=('mask', 'value', 'kind', 'type', 'shape'), in_shape=None):
    """obligations of one run against the reference semantics (templates over the run's placeholders)"""
    from . import oracle
    obs = []
    j = run.idx
    if run.outcome != 'ok':
        return obs, None
    if 'type' in want and any(isinstance(h.arr, symnp.MaskedArray) for h in arrays_of(kw)):
        # (when no input is a masked array a plain result has lost nothing)
        obs.append(fact_ob('result is a masked array (a plain array has lost its missing cells)', ('masked_result', j), group='type'))
    if 'shape' in want and in_shape is not None:
        obs.append(fact_ob('result shape equals input shape', ('shape_is', j, list(in_shape)), group='shape'))
    n = len(snap[0][0]) if snap else 0
    if not isinstance(run.result, symnp.ndarray) or len(run.pd) != n:
        return obs, None
    params = {k: v for k, v in kw.items() if not isinstance(v, Holder) and not (isinstance(v, list) and v and isinstance(v[0], Holder))}
    ref = oracle.reference(spec.name, [(s[0], s[1]) for s in snap], params)
    um = union_mask(snap, n)
    if ref is None:
        if 'mask' in want:
            for i in range(n):
                obs.append(term_ob('cell %d: missing in an input => missing in the result' % i, z3.Implies(um[i], run.pm[i]), group='mask-superset'))
        return obs, None
    pre = z3.And(*ref['defs']) if ref['defs'] else None

    def wrap(t):
        return z3.Implies(pre, t) if pre is not None else t
    for i in range(n):
        und = ref['undefined'][i]
        if 'mask' in want:
            obs.append(term_ob('cell %d: missing <=> missing in an input or operation undefined' % i,
                               wrap(run.pm[i] == z3.Or(um[i], und)), group='mask'))
        if 'value' in want:
            margin = z3.And(z3.Not(run.pm[i]), z3.Or(run.pd[i] - ref['vals'][i] > R_MARGIN, ref['vals'][i] - run.pd[i] > R_MARGIN))
            obs.append(term_ob('cell %d: value == reference' % i, wrap(z3.Or(run.pm[i], run.pd[i] == ref['vals'][i])), group='value',
                               neg=(z3.And(pre, margin) if pre is not None else margin)))
    obs += inputs_unchanged_obs(run)
    if 'kind' in want and not any(s_[2] == 'u' for s_ in snap):
        # (for unsigned inputs only the values are claimed: the property does not say which integer type comes back)
        ek = oracle.expected_kind(spec.name, ref['kind'], [s[2] for s in snap], params)
        if ek is not None:
            obs.append(fact_ob('result element type is %s' % {'i': 'integer', 'f': 'float'}[ek], ('kind_is', j, ek), group='dtype'))
    return obs, ref


R_MARGIN = z3.RealVal(1) / 1024


def equal_results_obs(ra, rb, label, group, perm=None):
    """obligations: runs ra and rb have equal masks and equal values at non-missing cells (rb cell i
    corresponds to ra cell perm[i] when a permutation is given)"""
    obs = []
    if ra.outcome != 'ok' or rb.outcome != 'ok':
        return obs
    if len(ra.pd) != len(rb.pd):
        return obs
    n = len(ra.pd)
    for i in range(n):
        a = perm[i] if perm is not None else i
        obs.append(term_ob('%s: cell %d missing alike' % (label, i), ra.pm[a] == rb.pm[i], group=group + '-mask'))
        diff = ra.pd[a] - rb.pd[i]
        obs.append(term_ob('%s: cell %d equal value' % (label, i), z3.Or(ra.pm[a], ra.pd[a] == rb.pd[i]), group=group + '-value',
                           neg=z3.And(z3.Not(ra.pm[a]), z3.Not(rb.pm[i]), z3.Or(diff > R_MARGIN, -diff > R_MARGIN))))
    return obs
