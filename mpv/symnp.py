"""E1 prototype: symbolic stand-in for the part of numpy / numpy.ma that mpilot uses.

Arrays hold z3 terms in a shared buffer (`buf`); `idx` is a REAL numpy integer array of buffer
positions with the array's shape, so that slicing / fancy indexing / broadcasting / transposition are
delegated to real numpy on positions (views share `buf`, copies get a new one).
Loaded by `install()` AFTER real numpy has been imported and stashed as sys.modules['_realnumpy'].
"""
import sys, types, operator
import builtins as _b
import z3
from . import symx
from .symx import SymNum, SymBool, lift, Inconclusive, Outside

_np = sys.modules.get('_realnumpy')
if _np is None:
    import numpy as _np
    sys.modules['_realnumpy'] = _np

__version__ = _np.__version__


class _NoMask(object):
    """stand-in for numpy.ma.nomask (a numpy False scalar): falsy, copyable, usable as a mask value"""
    shape = ()
    ndim = 0
    size = 1
    dtype = None

    def __bool__(self):
        return False

    def copy(self):
        return self

    def any(self):
        return False

    def all(self):
        return False

    def __or__(self, o):
        return o

    __ror__ = __or__

    def __repr__(self):
        return 'nomask'


NOMASK = _NoMask()
nomask = None       # internal representation of "no mask array"
float64 = 'f'
int64 = 'i'
bool_ = 'b'


class UFuncTypeError(TypeError):
    pass


def _kind_of_dtype(dt):
    if dt is None:
        return None
    if dt in ('f', 'i', 'b', 'u'):
        return dt
    n = getattr(dt, '__name__', str(dt)).lower()
    if 'float' in n:
        return 'f'
    if 'bool' in n:
        return 'b'
    if 'uint' in n or 'unsigned' in n:
        return 'u'
    if 'int' in n:
        return 'i'
    raise TypeError("data type %r not understood" % (dt,))


def poison_div(x, y):
    """x / y on plain arrays: If(y == 0, P, x / y) with P a fresh registered non-finite value"""
    c = symx.CTX
    yz = _simp(y == 0)
    if z3.is_false(yz):
        return x / y
    P = c.fresh('nonfinite')
    c.poison[P.get_id()] = (P, _simp(x != 0), _simp(x == 0))      # (term, is-infinite condition, is-nan condition)
    if z3.is_true(yz):
        return P
    return z3.If(yz, P, x / z3.If(yz, z3.RealVal(1), y))


def nonfinite_conditions(cell):
    """(is-inf term, is-nan term) of a cell as far as the poison registry knows (False, False for ordinary cells)"""
    c = symx.CTX
    reg = getattr(c, 'poison', {})
    if not reg:
        return z3.BoolVal(False), z3.BoolVal(False)
    hit = reg.get(cell.get_id())
    if hit is not None and hit[0].eq(cell):
        return hit[1], hit[2]
    if z3.is_app(cell) and cell.decl().kind() == z3.Z3_OP_ITE:
        cond, a, b = cell.arg(0), cell.arg(1), cell.arg(2)
        ia, na = nonfinite_conditions(a)
        ib, nb = nonfinite_conditions(b)
        return _simp(z3.If(cond, ia, ib)), _simp(z3.If(cond, na, nb))
    return z3.BoolVal(False), z3.BoolVal(False)


def join_kinds(kinds):
    """element kind of an array assembled from arrays of the given kinds (numpy's promotion: any float -> float;
    uint64 together with int64 -> float64; uint64 > int64 > bool otherwise)"""
    ks = set(kinds)
    if 'f' in ks or {'u', 'i'} <= ks:
        return 'f'
    for k in ('u', 'i', 'b'):
        if k in ks:
            return k
    return 'f'


def _T():
    return z3.BoolVal(True)


def _F():
    return z3.BoolVal(False)


def _simp(e):
    return z3.simplify(e)


# ---- optional floating-point error model (used by the C04 'rounding' jobs only): every float result of an array
# arithmetic operation is the exact real value plus an unconstrained error of at most ROUNDING['delta'].  This
# OVER-approximates IEEE rounding for values of moderate size, so a proof under it also covers the doubles; a
# counterexample under it is only a candidate and is reported only if it reproduces on the real code with real doubles.
ROUNDING = {'on': False, 'delta': z3.RealVal(1) / z3.RealVal(2 ** 40), 'n': 0, 'u': z3.RealVal(1) / z3.RealVal(2 ** 50)}


def _rounded(v):
    v = _simp(v)
    if z3.is_rational_value(v):
        return v
    ROUNDING['n'] += 1
    if ROUNDING['on'] == 'rel':
        # magnitude-RELATIVE error with a fixed pattern: result * (1 +/- 2^-50), the sign alternating from operation to
        # operation.  Not an over-approximation (real rounding picks its own signs) - a cheap stand-in, free of new
        # variables, under which errors that do not cancel (catastrophic cancellation) become visible to the solver;
        # whatever it finds is only a candidate until real doubles show it.
        return v * (1 + ROUNDING['u']) if ROUNDING['n'] % 2 else v * (1 - ROUNDING['u'])
    e = symx.CTX.fresh('rnd', 'real')
    symx.CTX.assume(z3.And(e >= -ROUNDING['delta'], e <= ROUNDING['delta']))
    return v + e


class ndarray(object):
    __array_priority__ = 0.0
    __hash__ = None

    def __init__(self, buf, idx, kind):
        self.buf = buf
        self.idx = idx
        self.kind = kind

    # ---- construction helpers
    @staticmethod
    def _new(cells, shape, kind):
        cells = list(cells)
        return ndarray(cells, _np.arange(len(cells)).reshape(shape), kind)

    def cells(self):
        b = self.buf
        return [b[i] for i in self.idx.ravel().tolist()]

    @staticmethod
    def _new_f(cells, shape, kind):
        """like _new, but stored column-major (Fortran order) - what numpy.asfortranarray / a transposed raster is"""
        cells = list(cells)
        shape = tuple(shape)
        if len(shape) < 2:
            return ndarray._new(cells, shape, kind)
        idx = _np.arange(len(cells)).reshape(shape[::-1]).T
        buf = [None] * len(cells)
        for p_, c in zip(idx.ravel().tolist(), cells):
            buf[p_] = c
        return ndarray(buf, idx, kind)

    @property
    def shape(self):
        return self.idx.shape

    @property
    def ndim(self):
        return self.idx.ndim

    @property
    def size(self):
        return self.idx.size

    @property
    def dtype(self):
        return _DType(self.kind)

    @property
    def data(self):
        return ndarray(self.buf, self.idx, self.kind)

    def _view(self, idx):
        return ndarray(self.buf, idx, self.kind)

    def copy(self):
        return ndarray._new(self.cells(), self.shape, self.kind)

    def __len__(self):
        if self.idx.ndim == 0:
            raise TypeError("len() of unsized object")
        return self.idx.shape[0]

    def transpose(self, *axes):
        if len(axes) == 1 and isinstance(axes[0], (list, tuple)):
            axes = tuple(axes[0])
        return self._view(self.idx.transpose(*axes))

    def _relayout(self, new_idx):
        """numpy gives a VIEW when the requested layout can be expressed on the existing memory and a COPY otherwise; the
        index array has the same memory layout as the data it stands for, so numpy's own answer for it is the answer"""
        if _np.shares_memory(new_idx, self.idx) or new_idx.size == 0:
            return self._view(new_idx)
        return ndarray._new([self.buf[i] for i in new_idx.ravel().tolist()], new_idx.shape, self.kind)

    def reshape(self, *shape, **kw):
        if len(shape) == 1 and isinstance(shape[0], (list, tuple)):
            shape = tuple(shape[0])
        return self._relayout(self.idx.reshape(shape, order=kw.get('order', 'C')))

    def ravel(self, order='C'):
        return self._relayout(self.idx.ravel(order=order))

    @property
    def flags(self):
        return self.idx.flags

    def __iter__(self):
        for i in range(len(self)):
            yield self[i]

    # ---- element-wise machinery
    def _operands(self, other):
        """-> (cells_a, cells_b, shape, kind_b)"""
        if isinstance(other, ndarray):
            ob = other
            try:
                ia, ib = _np.broadcast_arrays(self.idx, ob.idx)
            except ValueError:
                raise ValueError("operands could not be broadcast together with shapes %s %s" % (self.shape, ob.shape))
            a = [self.buf[i] for i in ia.ravel().tolist()]
            b = [ob.buf[i] for i in ib.ravel().tolist()]
            return a, b, ia.shape, ob.kind
        if isinstance(other, SymBool):
            v, k = other.e, 'b'
        elif isinstance(other, (bool, _NoMask, _np.bool_)):
            v, k = z3.BoolVal(bool(other)), 'b'
        else:
            v, k = lift(other), symx.kind_of(other)
        a = self.cells()
        return a, [v] * len(a), self.shape, k

    def _arith(self, other, fn, reverse=False, force=None):
        if other is masked:
            return _all_masked_like(self, True)
        a, b, shape, kb = self._operands(other)
        ka = self.kind
        if ka == 'b':
            a = [z3.If(x, z3.RealVal(1), z3.RealVal(0)) for x in a]
            ka = 'i' if kb != 'u' else 'u'
        if kb == 'b':
            b = [z3.If(x, z3.RealVal(1), z3.RealVal(0)) if z3.is_bool(x) else x for x in b]
            kb = 'i' if ka != 'u' else 'u'
        kind = force or ('f' if 'f' in (ka, kb) else 'i')
        if force is None and 'u' in (ka, kb) and 'f' not in (ka, kb):
            # unsigned 64-bit operands (numpy 1.x): uint64 with uint64 -> uint64 (wraps below zero); with an int64 ARRAY
            # -> float64; with an integer SCALAR by value: non-negative -> the array's type, negative -> float64
            if ka == kb == 'u':
                kind = 'u'
            elif isinstance(other, ndarray):
                kind = 'f'
            elif ka == 'u':
                kind = 'f' if symx.CTX.decide(b[0] < 0) else 'u'
            else:
                kind = 'i'          # int64 array with a uint64 scalar (value fits): int64
        vals = [fn(y, x) for x, y in zip(a, b)] if reverse else [fn(x, y) for x, y in zip(a, b)]
        if kind == 'u':
            vals = [symx.wrap_u64(v) for v in vals]
        if ROUNDING['on'] and kind == 'f':
            vals = [_rounded(v) for v in vals]
        return ndarray._new(vals, shape, kind)

    def _compare(self, other, fn):
        if other is masked:
            raise Outside("plain array compared with the numpy.ma.masked constant (statistic of an all-missing array)")
        a, b, shape, kb = self._operands(other)
        return ndarray._new([fn(x, y) for x, y in zip(a, b)], shape, 'b')

    def __add__(self, o):
        if isinstance(o, MaskedArray): return NotImplemented
        return self._arith(o, operator.add)
    def __radd__(self, o): return self._arith(o, operator.add, True)
    def __sub__(self, o):
        if isinstance(o, MaskedArray): return NotImplemented
        return self._arith(o, operator.sub)
    def __rsub__(self, o): return self._arith(o, operator.sub, True)
    def __mul__(self, o):
        if isinstance(o, MaskedArray): return NotImplemented
        return self._arith(o, operator.mul)
    def __rmul__(self, o): return self._arith(o, operator.mul, True)
    def __neg__(self): return ndarray._new([(symx.wrap_u64(-x) if self.kind == 'u' else -x) for x in self.cells()], self.shape, self.kind)

    def __truediv__(self, o):
        if isinstance(o, MaskedArray): return NotImplemented
        # plain ndarray division: a zero divisor yields a non-finite value (inf for x != 0, nan for 0/0), represented
        # by a registered "poison" constant so that isinf / isnan / isfinite can still be answered exactly
        a, b, shape, kb = self._operands(o)
        return ndarray._new([poison_div(x, y) for x, y in zip(a, b)], shape, 'f')

    def _inplace(self, o, fn, name):
        if isinstance(o, MaskedArray):
            o = o.data      # ndarray op= masked: numpy uses the raw data of the masked operand
        r = self._arith(o, fn, force='f' if name == 'divide' else None)
        if r.kind == 'f' and self.kind in ('i', 'b', 'u'):
            raise UFuncTypeError("Cannot cast ufunc '%s' output from dtype('float64') to dtype('int64') with casting rule 'same_kind'" % name)
        if r.shape != self.shape:
            raise ValueError("non-broadcastable output operand with shape %s doesn't match the broadcast shape %s" % (self.shape, r.shape))
        for i, v in zip(self.idx.ravel().tolist(), r.cells()):
            self.buf[i] = v
        return self

    def __iadd__(self, o): return self._inplace(o, operator.add, 'add')
    def __isub__(self, o): return self._inplace(o, operator.sub, 'subtract')
    def __imul__(self, o): return self._inplace(o, operator.mul, 'multiply')
    def __itruediv__(self, o):
        a, b, shape, kb = self._operands(o.data if isinstance(o, MaskedArray) else o)
        for y in b:
            if symx.CTX.decide(y == 0):
                raise Outside("plain ndarray division by zero")
        return self._inplace(o, operator.truediv, 'divide')

    def __lt__(self, o): return self._compare(o, operator.lt)
    def __le__(self, o): return self._compare(o, operator.le)
    def __gt__(self, o): return self._compare(o, operator.gt)
    def __ge__(self, o): return self._compare(o, operator.ge)
    def __eq__(self, o): return self._compare(o, operator.eq)
    def __ne__(self, o): return self._compare(o, operator.ne)

    def __invert__(self):
        return ndarray._new([z3.Not(x) for x in self.cells()], self.shape, 'b')

    def __or__(self, o):
        a, b, shape, _ = self._operands(o)
        return ndarray._new([z3.Or(x, y) for x, y in zip(a, b)], shape, 'b')

    def __and__(self, o):
        a, b, shape, _ = self._operands(o)
        return ndarray._new([z3.And(x, y) for x, y in zip(a, b)], shape, 'b')

    def __ior__(self, o):
        r = self.__or__(o)
        for i, v in zip(self.idx.ravel().tolist(), r.cells()):
            self.buf[i] = v
        return self

    __iadd_bool__ = __ior__

    # ---- reductions
    def any(self):
        c = self.cells()
        return SymBool(z3.Or(*c)) if c else False

    def all(self):
        c = self.cells()
        return SymBool(z3.And(*c)) if c else True

    def _fold(self, pick):
        c = self.cells()
        acc = c[0]
        for v in c[1:]:
            acc = z3.If(pick(v, acc), v, acc)
        return SymNum(_simp(acc), self.kind, True)

    def min(self): return self._fold(lambda v, a: v < a)
    def max(self): return self._fold(lambda v, a: v > a)

    def sum(self):
        c = self.cells()
        return SymNum(z3.Sum(*c) if len(c) > 1 else c[0], self.kind, True)

    def mean(self):
        c = self.cells()
        if not c:
            raise Outside("mean of empty array (nan)")
        return SymNum((z3.Sum(*c) if len(c) > 1 else c[0]) / len(c), 'f', True)

    def round(self, n=0):
        raise Inconclusive("round not modelled")

    # ---- indexing
    def _concrete_key(self, key):
        """turn symbolic boolean arrays / symbolic ints inside a key into real numpy objects (forking)"""
        if isinstance(key, tuple):
            return tuple(self._concrete_key(k) for k in key)
        if isinstance(key, MaskedArray):
            key = key._index_array()
        if isinstance(key, ndarray):
            if key.kind == 'b':
                bits = [symx.CTX.decide(c) for c in key.cells()]
                return _np.array(bits, dtype=bool).reshape(key.shape)
            raise Inconclusive("integer symbolic arrays as index not modelled")
        if isinstance(key, SymNum):
            return key.__index__()
        if isinstance(key, slice):
            f = lambda v: v.__index__() if isinstance(v, SymNum) else v
            return slice(f(key.start), f(key.stop), f(key.step))
        return key

    @staticmethod
    def _is_basic(key):
        ks = key if isinstance(key, tuple) else (key,)
        return all(isinstance(k, (int, slice, type(None), type(Ellipsis))) or isinstance(k, _np.integer) for k in ks)

    def __getitem__(self, key):
        key = self._concrete_key(key)
        sub = self.idx[key]
        if not isinstance(sub, _np.ndarray):
            return _scalar(self.buf[int(sub)], self.kind)
        if self._is_basic(key):
            return self._view(sub)
        return ndarray._new([self.buf[i] for i in sub.ravel().tolist()], sub.shape, self.kind)

    def _store(self, positions, value):
        """positions: real numpy int array; value: scalar / array broadcastable to it"""
        pos = positions.ravel().tolist() if isinstance(positions, _np.ndarray) else [int(positions)]
        if isinstance(value, ndarray):
            vi = _np.broadcast_to(value.idx, _np.shape(positions))
            vals = [value.buf[i] for i in vi.ravel().tolist()]
            vk = value.kind
        elif isinstance(value, (list, tuple)):
            raise Inconclusive("sequence assignment not modelled")
        else:
            v, vk = _scalar_term(value)
            vals = [v] * len(pos)
        vals = [_cast(v, vk, self.kind) for v in vals]
        for p, v in zip(pos, vals):
            self.buf[p] = v

    def __setitem__(self, key, value):
        if isinstance(key, MaskedArray):
            key = key._index_array()
        if isinstance(key, ndarray) and key.kind == 'b' and not isinstance(value, (ndarray, list, tuple)):
            # a[cond] = scalar  -> merge, no fork
            v, vk = _scalar_term(value)
            v = _cast(v, vk, self.kind)
            kc = _np.broadcast_to(key.idx, self.shape)
            for p, ci in zip(self.idx.ravel().tolist(), kc.ravel().tolist()):
                self.buf[p] = _simp(z3.If(key.buf[ci], v, self.buf[p]))
            return
        key = self._concrete_key(key)
        self._store(self.idx[key], value)

    def __repr__(self):
        return "symarray(%s, kind=%s)" % (self.cells(), self.kind)


class _DType(object):
    def __init__(self, kind):
        self.kind = kind
        self.char = {'f': 'd', 'i': 'l', 'b': '?', 'u': 'L'}[kind]
        self.type = {'f': float64, 'i': int64, 'b': bool_, 'u': 'u'}[kind]
        self.names = None

    def __eq__(self, o):
        try:
            return _kind_of_dtype(o.kind if isinstance(o, _DType) else o) == self.kind
        except TypeError:
            return False

    def __repr__(self):
        return "dtype(%s)" % self.kind


def _scalar(e, kind):
    if kind == 'b':
        e = _simp(e)
        if z3.is_true(e): return True
        if z3.is_false(e): return False
        return SymBool(e)
    return SymNum(e, kind, True)


def _scalar_term(v):
    if z3.is_expr(v) and z3.is_bool(v):
        return v, 'b'
    if isinstance(v, SymBool):
        return v.e, 'b'
    if isinstance(v, bool):
        return z3.BoolVal(v), 'b'
    return lift(v), symx.kind_of(v)


def _cast(v, frm, to):
    if frm == to or to is None:
        return v
    if to == 'b':
        return v if frm == 'b' else v != 0
    if frm == 'b':
        return z3.If(v, z3.RealVal(1), z3.RealVal(0))
    if to in ('i', 'u') and frm == 'f':
        t = z3.ToInt(v)
        r = z3.ToReal(z3.If(z3.And(v < 0, z3.ToReal(t) != v), t + 1, t))   # C truncation
        return symx.wrap_u64(r) if to == 'u' else r
    if to == 'u' and frm == 'i':
        return symx.wrap_u64(v)
    return v


class _MaskedConstant(object):
    """numpy.ma.masked: arithmetic with numbers or with itself stays masked; with an array it yields an
    all-masked array (handled by the array operators)"""
    __masked_constant__ = True
    __array_priority__ = 20

    def __repr__(self):
        return "masked"

    def _op(self, o=None):
        if isinstance(o, ndarray):
            return _all_masked_like(o, True)
        return self
    __add__ = __radd__ = __sub__ = __rsub__ = __mul__ = __rmul__ = __truediv__ = __rtruediv__ = _op

    def _cmpop(self, o=None):
        if isinstance(o, ndarray):
            return _all_masked_like(o)
        return self
    __lt__ = __le__ = __gt__ = __ge__ = _cmpop
    __neg__ = __abs__ = lambda self: self

    def __float__(self):
        raise Outside("float() of the numpy.ma.masked constant (nan)")

    def __eq__(self, o):
        return self._cmpop(o)

    def __ne__(self, o):
        return self._cmpop(o)

    __hash__ = None

    def __bool__(self):
        return False

    def filled(self, v=0):
        return v


def _all_masked_like(a, arith=False):
    d = a.data if isinstance(a, MaskedArray) else a
    k = d.kind if d.kind != 'b' else 'i'
    if arith:
        k = 'f'             # numpy.ma.masked is a float64 0-d array: arithmetic with it promotes to float64
    return MaskedArray(ndarray._new(d.cells(), d.shape, k), ndarray._new([_T()] * d.size, d.shape, 'b'))


masked = _MaskedConstant()


def _maskcells(m, n):
    return m.cells() if m is not None else [_F()] * n


class MaskedArray(ndarray):
    __array_priority__ = 15

    def __init__(self, data, mask=nomask, fill_value=None, hard=False, dtype=None, copy=False, **kw):
        if not (type(data) is ndarray and dtype is None and not copy
                and (mask is None or (type(mask) is ndarray and mask.kind == 'b' and mask.shape == data.shape))):
            tmp = _ma_array(data, dtype=dtype, copy=copy, mask=mask, fill_value=fill_value)      # public-style construction
            data, mask, fill_value = ndarray(tmp.buf, tmp.idx, tmp.kind), tmp._mask, tmp._fill
        ndarray.__init__(self, data.buf, data.idx, data.kind)
        if mask is not None:
            assert mask.shape == data.shape, (mask.shape, data.shape)
        self._mask = mask
        self._fill = fill_value
        self._hardmask = hard

    # --- plumbing
    @property
    def data(self):
        return ndarray(self.buf, self.idx, self.kind)

    @property
    def mask(self):
        return self._mask if self._mask is not None else NOMASK

    @mask.setter
    def mask(self, m):
        if isinstance(m, _np.bool_):
            m = bool(m)
        if m is None or m is False or m is NOMASK:
            if self._mask is not None:
                for p in self._mask.idx.ravel().tolist():
                    self._mask.buf[p] = _F()
            return
        if self._mask is None:
            self._mask = ndarray._new([_F()] * self.size, self.shape, 'b')
        if m is True:
            for p in self._mask.idx.ravel().tolist():
                self._mask.buf[p] = _T()
            return
        if isinstance(m, MaskedArray):
            m = m.data
        if isinstance(m, (list, tuple)):
            m = _core_array(list(m), dtype='b')
        # numpy: current_mask.flat = mask  (in place; the value is read flat and recycled)
        src = [m.buf[q] for q in m.idx.ravel().tolist()]
        if not src:
            if self.size == 0:
                return
            raise ValueError("cannot set the mask from an empty sequence")
        if m.kind != 'b':
            src = [(c != 0) for c in src]
        for j, p in enumerate(self._mask.idx.ravel().tolist()):
            self._mask.buf[p] = src[j % len(src)]

    @property
    def fill_value(self):
        if self._fill is not None:
            return self._fill
        return {'f': 1e20, 'i': 999999, 'b': True, 'u': 999999}[self.kind]

    def maskcells(self):
        return _maskcells(self._mask, self.size)

    def soften_mask(self):
        self._hardmask = False
        return self

    def harden_mask(self):
        raise Outside("hard masks are outside the model")

    def _view(self, idx, midx=None):
        m = None
        if self._mask is not None:
            m = ndarray(self._mask.buf, midx if midx is not None else idx, 'b')
        return MaskedArray(ndarray(self.buf, idx, self.kind), m, self._fill)

    def copy(self):
        return MaskedArray(ndarray._new(self.cells(), self.shape, self.kind),
                           None if self._mask is None else self._mask.copy(), self._fill)

    def transpose(self, *axes):
        if len(axes) == 1 and isinstance(axes[0], (list, tuple)):
            axes = tuple(axes[0])
        return self._view(self.idx.transpose(*axes), None if self._mask is None else self._mask.idx.transpose(*axes))

    def _index_array(self):
        """what numpy sees when a masked array is used as an index: its raw data"""
        return self.data

    def filled(self, fv=None):
        if self._mask is None:
            return self.data            # numpy returns self._data itself when there is no mask
        fv = self.fill_value if fv is None else fv
        t, k = _scalar_term(fv)
        return ndarray._new([z3.If(m, t, x) for m, x in zip(self.maskcells(), self.cells())], self.shape, self.kind)

    def compressed(self):
        bits = [symx.CTX.decide(m) for m in self.maskcells()]
        return ndarray._new([x for x, b in zip(self.cells(), bits) if not b], (bits.count(False),), self.kind)

    def count(self):
        return self.size - _b._b.sum(1 for m in self.maskcells() if symx.CTX.decide(m))

    # --- masks of binary results
    def _mask_or(self, other, shape):
        om = other._mask if isinstance(other, MaskedArray) else None
        if self._mask is None and om is None:
            return None
        n = int(_np.prod(shape)) if len(shape) else 1
        a = _bc(self._mask, shape) if self._mask is not None else [_F()] * n
        b = _bc(om, shape) if om is not None else [_F()] * n
        return ndarray._new([_simp(z3.Or(x, y)) for x, y in zip(a, b)], shape, 'b')

    def _binop(self, other, fn, reverse=False):
        if other is masked:
            return _all_masked_like(self, True)
        od = other.data if isinstance(other, MaskedArray) else other
        r = ndarray._arith(self.data, od, fn, reverse)
        m = self._mask_or(other, r.shape)
        if m is not None:
            # numpy reverts the result to the FIRST operand's data where masked
            first = other if reverse else self
            if isinstance(first, ndarray) and first.shape == r.shape:
                fc = first.data.cells()
                fk = first.kind
                r = ndarray._new([z3.If(mm, _cast(f, fk, r.kind) if fk != 'b' else x, x) for mm, f, x in zip(m.cells(), fc, r.cells())], r.shape, r.kind)
        return MaskedArray(r, m, self._fill if self._fill is not None else (other._fill if isinstance(other, MaskedArray) else None))

    def __add__(self, o): return self._binop(o, operator.add)
    def __radd__(self, o): return self._binop(o, operator.add, True)
    def __sub__(self, o): return self._binop(o, operator.sub)
    def __rsub__(self, o): return self._binop(o, operator.sub, True)
    def __mul__(self, o): return self._binop(o, operator.mul)
    def __rmul__(self, o): return self._binop(o, operator.mul, True)

    def __neg__(self):
        # numpy's masked unary ufuncs (negative, absolute) give the result the operand's OWN mask array (no copy)
        # (an operand without a mask array gets a fresh all-False one: __array_wrap__ uses getmaskarray)
        return MaskedArray(-self.data, self._mask if self._mask is not None else ndarray._new([_F()] * self.size, self.shape, 'b'), self._fill)

    def _div(self, num, den):
        """masked true division num/den (either may be scalar/ndarray/MaskedArray) -> MaskedArray"""
        if num is masked or den is masked:
            return _all_masked_like(self, True)
        base = num if isinstance(num, ndarray) else den
        a, b, shape, _ = ndarray._operands(num.data if isinstance(num, ndarray) else _full_like(base, num),
                                           den.data if isinstance(den, ndarray) else den)
        nm = _bc(num._mask, shape) if isinstance(num, MaskedArray) and num._mask is not None else [_F()] * len(a)
        dm = _bc(den._mask, shape) if isinstance(den, MaskedArray) and den._mask is not None else [_F()] * len(a)
        ms = [_simp(z3.Or(x, y, d == 0)) for x, y, d in zip(nm, dm, b)]
        ak = num.kind if isinstance(num, ndarray) else symx.kind_of(num)
        # numpy: result 0 where masked, then += masked_da if it can be cast safely
        vals = [z3.If(m, (x if ak == 'f' else z3.RealVal(0)), x / z3.If(m, z3.RealVal(1), d)) for m, x, d in zip(ms, a, b)]
        if ROUNDING['on']:
            vals = [_rounded(v) for v in vals]
        fv = base._fill if isinstance(base, MaskedArray) else None
        return MaskedArray(ndarray._new(vals, shape, 'f'), ndarray._new(ms, shape, 'b'), fv)

    def __truediv__(self, o): return self._div(self, o)
    def __rtruediv__(self, o): return self._div(o, self)

    def _mask_all(self):
        if self._mask is None:
            self._mask = ndarray._new([_T()] * self.size, self.shape, 'b')
        else:
            for p in self._mask.idx.ravel().tolist():
                self._mask.buf[p] = _T()
        return self

    def _iop(self, o, fn, ident, name):
        if o is masked:
            return self._mask_all()
        om = o._mask if isinstance(o, MaskedArray) else None
        if om is not None:
            if self._mask is None:
                if bool(om.any()):
                    self._mask = ndarray._new(_bc(om, self.shape), self.shape, 'b')
            else:
                nm = [_simp(z3.Or(x, y)) for x, y in zip(self._mask.cells(), _bc(om, self.shape))]
                for p, v in zip(self._mask.idx.ravel().tolist(), nm):
                    self._mask.buf[p] = v
        od = o.data if isinstance(o, MaskedArray) else o
        if self._mask is not None:
            a, b, shape, kb = ndarray._operands(self.data, od)
            od = ndarray._new([z3.If(m, z3.RealVal(ident), v) for m, v in zip(self._mask.cells(), b)], shape, 'i' if kb == 'b' else kb)
        ndarray._inplace(self.data, od, fn, name)
        return self

    def __iadd__(self, o): return self._iop(o, operator.add, 0, 'add')
    def __isub__(self, o): return self._iop(o, operator.sub, 0, 'subtract')
    def __imul__(self, o): return self._iop(o, operator.mul, 1, 'multiply')

    def __itruediv__(self, o):
        if o is masked:
            if self.kind != 'f':
                raise UFuncTypeError("Cannot cast ufunc 'divide' output from dtype('float64') to dtype('int64') with casting rule 'same_kind'")
            return self._mask_all()
        od = o.data if isinstance(o, MaskedArray) else o
        a, b, shape, kb = ndarray._operands(self.data, od)
        om = _bc(o._mask, shape) if isinstance(o, MaskedArray) and o._mask is not None else [_F()] * len(a)
        new = [_simp(z3.Or(x, y, d == 0)) for x, y, d in zip(self.maskcells(), om, b)]
        self._mask = ndarray._new(new, self.shape, 'b') if self._mask is None else self._mask
        for p, v in zip(self._mask.idx.ravel().tolist(), new):
            self._mask.buf[p] = v
        if self.kind != 'f':
            raise UFuncTypeError("Cannot cast ufunc 'divide' output from dtype('float64') to dtype('int64') with casting rule 'same_kind'")
        for p, m, d in zip(self.idx.ravel().tolist(), new, b):
            self.buf[p] = self.buf[p] / z3.If(m, z3.RealVal(1), d)
        return self

    def _compare(self, o, fn):
        if o is masked:
            r0 = _all_masked_like(self)
            return MaskedArray(ndarray._new([_F()] * self.size, self.shape, 'b'), r0._mask, True)
        od = o.data if isinstance(o, MaskedArray) else o
        r = ndarray._compare(self.data, od, fn)
        m = self._mask_or(o, r.shape)
        if m is not None and fn in (operator.eq, operator.ne):
            sm = _bc(self._mask, r.shape) if self._mask is not None else [_F()] * r.size
            om = _bc(o._mask, r.shape) if isinstance(o, MaskedArray) and o._mask is not None else [_F()] * r.size
            r = ndarray._new([z3.If(mm, fn(a, b), c) for mm, a, b, c in zip(m.cells(), sm, om, r.cells())], r.shape, 'b')
        if r.ndim == 0:
            raise Inconclusive("0-d masked comparison")
        return MaskedArray(r, m, True)

    # --- indexing
    def __getitem__(self, key):
        key = self._concrete_key(key)
        sub = self.idx[key]
        msub = self._mask.idx[key] if self._mask is not None else None
        if not isinstance(sub, _np.ndarray):
            if self._mask is not None and symx.CTX.decide(self._mask.buf[int(msub)]):
                return masked
            return _scalar(self.buf[int(sub)], self.kind)
        if self._is_basic(key):
            return self._view(sub, msub)
        d = ndarray._new([self.buf[i] for i in sub.ravel().tolist()], sub.shape, self.kind)
        m = None if msub is None else ndarray._new([self._mask.buf[i] for i in msub.ravel().tolist()], msub.shape, 'b')
        return MaskedArray(d, m, self._fill)

    def __setitem__(self, key, value):
        if value is masked:
            raise Inconclusive("assigning masked constant not modelled")
        dval = value.data if isinstance(value, MaskedArray) else value
        mval = value._mask if isinstance(value, MaskedArray) else None
        if self._mask is None:
            ndarray.__setitem__(self.data, key, dval)
            if mval is not None:
                self._mask = ndarray._new([_F()] * self.size, self.shape, 'b')
                ndarray.__setitem__(self._mask, key, mval)
            return
        if isinstance(key, MaskedArray) and not isinstance(value, MaskedArray):
            ndarray.__setitem__(self.data, key.data, dval)      # mask untouched
            return
        ndarray.__setitem__(self.data, key, dval)
        ndarray.__setitem__(self._mask, key, mval if mval is not None else False)

    # --- reductions
    def _sel(self, pick):
        ms = self.maskcells()
        if self._mask is None:
            return ndarray._fold(self.data, pick)
        if symx.CTX.decide(z3.And(*ms)):
            return masked
        acc, valid = None, None
        for v, m in zip(self.cells(), ms):
            if acc is None:
                acc, valid = v, z3.Not(m)
            else:
                acc = z3.If(z3.And(z3.Not(m), z3.Or(z3.Not(valid), pick(v, acc))), v, acc)
                valid = z3.Or(valid, z3.Not(m))
        return SymNum(_simp(acc), self.kind, True)

    def min(self, axis=None): return self._sel(lambda v, a: v < a)
    def max(self, axis=None): return self._sel(lambda v, a: v > a)

    def _count_sum(self, cells, ms):
        cnt = z3.Sum(*[z3.If(m, 0, 1) for m in ms]) if len(ms) > 1 else z3.If(ms[0], 0, 1)
        tot = z3.Sum(*[z3.If(m, z3.RealVal(0), v) for m, v in zip(ms, cells)]) if len(ms) > 1 else z3.If(ms[0], z3.RealVal(0), cells[0])
        return cnt, tot

    @staticmethod
    def _div_count(tot, cnt, n):
        e = tot / n
        for k in range(n - 1, 0, -1):
            e = z3.If(cnt == k, tot / k, e)
        return e

    def mean(self, axis=None):
        if axis is not None:
            return _ma_mean(self, axis)
        if self._mask is None:
            return ndarray.mean(self.data)
        # fork on the mask bits: keeps every statistic a polynomial without ite (much easier for the solver)
        bits = [symx.CTX.decide(m) for m in self.maskcells()]
        live = [symx.CTX.fold(v) for v, b in zip(self.cells(), bits) if not b]
        if not live:
            return masked
        return SymNum((z3.Sum(*live) if len(live) > 1 else live[0]) / len(live), 'f', True)

    def std(self, axis=None):
        if axis is not None:
            raise Inconclusive("std with axis not modelled")
        mu = self.mean()
        if mu is masked:
            return masked
        bits = [symx.CTX.decide(m) for m in self.maskcells()]
        live = [(symx.CTX.fold(v) - mu.e) * (symx.CTX.fold(v) - mu.e) for v, b in zip(self.cells(), bits) if not b]
        var = (z3.Sum(*live) if len(live) > 1 else live[0]) / len(live)
        r = symx.CTX.sqrt(var)
        return SymNum(r, 'f', True)

    def sum(self, axis=None):
        ms = self.maskcells()
        cnt, tot = self._count_sum(self.cells(), ms)
        return SymNum(tot, self.kind, True)

    def sort(self, axis=-1, kind=None, order=None, endwith=True, fill_value=None):
        if self.ndim == 0:
            return
        ax = axis % self.ndim
        di = _np.moveaxis(self.idx, ax, 0)
        mi = _np.moveaxis(self._mask.idx, ax, 0) if self._mask is not None else None
        n = di.shape[0]
        dcols = di.reshape(n, -1)
        mcols = mi.reshape(n, -1) if mi is not None else None
        for c in range(dcols.shape[1]):
            items = [(self._mask.buf[mcols[r, c]] if mcols is not None else _F(), self.buf[dcols[r, c]]) for r in range(n)]
            for i in range(1, n):
                j = i
                while j > 0:
                    (m1, v1), (m2, v2) = items[j - 1], items[j]
                    swap = z3.Or(z3.And(m1, z3.Not(m2)), z3.And(m1 == m2, v1 > v2))
                    if symx.CTX.decide(swap):
                        items[j - 1], items[j] = items[j], items[j - 1]
                        j -= 1
                    else:
                        break
            for r in range(n):
                self.buf[dcols[r, c]] = items[r][1]
                if mcols is not None:
                    self._mask.buf[mcols[r, c]] = items[r][0]

    def __repr__(self):
        return "symmasked(%s, mask=%s, kind=%s)" % (self.cells(), None if self._mask is None else self._mask.cells(), self.kind)


def _bc(arr, shape):
    """cells of arr broadcast to shape"""
    ib = _np.broadcast_to(arr.idx, shape)
    return [arr.buf[i] for i in ib.ravel().tolist()]


def _full_like(base, scalar):
    t, k = _scalar_term(scalar)
    return ndarray._new([t] * base.size, base.shape, k)


# ---------------------------------------------------------------- numpy namespace
def copy(a):
    if isinstance(a, ndarray):
        return ndarray._new(a.data.cells(), a.shape, a.kind)
    return _np.copy(a)


def _aslist(x):
    return x


def array(obj, dtype=None, copy=True):
    k = _kind_of_dtype(dtype)
    if isinstance(obj, ndarray):
        c = obj.data.cells()
        return ndarray._new([_cast(v, obj.kind, k) for v in c], obj.shape, k or obj.kind)
    if isinstance(obj, (list, tuple)):
        if obj and _b.all(isinstance(o, ndarray) for o in obj):
            parts = [o.data for o in obj]
            kk = join_kinds(p.kind for p in parts)
            cells = [_cast(v, p.kind, kk) for p in parts for v in p.cells()]
            return ndarray._new([_cast(v, kk, k) for v in cells], (len(parts),) + parts[0].shape, k or kk)
        terms = [_scalar_term(o) for o in obj]
        ks_ = set(t[1] for t in terms)
        kk = 'f' if ('f' in ks_ or {'u', 'i'} <= ks_) else ('u' if 'u' in ks_ else ('i' if 'i' in ks_ else ('b' if terms else 'f')))
        return ndarray._new([_cast(_cast(t, tk, kk), kk, k) for t, tk in terms], (len(terms),), k or kk)
    t, tk = _scalar_term(obj)
    return ndarray._new([_cast(t, tk, k)], (), k or tk)


asarray = array
_core_array = array


def full(shape, fill_value, dtype=None):
    shape = tuple(shape) if isinstance(shape, (list, tuple)) else (shape,)
    t, tk = _scalar_term(fill_value)
    k = _kind_of_dtype(dtype) or tk
    return ndarray._new([_cast(t, tk, k)] * int(_np.prod(shape)), shape, k)


def empty(shape, dtype=None):
    shape = tuple(shape) if isinstance(shape, (list, tuple)) else (shape,)
    k = _kind_of_dtype(dtype) or 'f'
    n = int(_np.prod(shape))
    cells = [symx.CTX.fresh('uninit', 'bool' if k == 'b' else 'real') for _ in range(n)]
    return ndarray._new(cells, shape, k)


def vstack(arrs):
    parts = []
    for a in arrs:
        a = a.data if isinstance(a, MaskedArray) else a
        parts.append(a if a.ndim >= 2 else a.reshape((1,) + a.shape) if a.ndim == 1 else a.reshape((1, 1)))
    for p in parts[1:]:
        if p.shape[1:] != parts[0].shape[1:]:
            raise ValueError("all the input array dimensions except for the concatenation axis must match exactly")
    kk = join_kinds(p.kind for p in parts)
    cells = [_cast(v, p.kind, kk) for p in parts for v in p.cells()]
    return ndarray._new(cells, (_b.sum(p.shape[0] for p in parts),) + parts[0].shape[1:], kk)


def stack(arrs, axis=0, out=None):
    parts = [a.data if isinstance(a, MaskedArray) else a for a in arrs]
    for p in parts[1:]:
        if p.shape != parts[0].shape:
            raise ValueError("all input arrays must have the same shape")
    kk = join_kinds(p.kind for p in parts)
    cells, idxs, off = [], [], 0
    for p in parts:
        c = [_cast(v, p.kind, kk) for v in p.cells()]
        idxs.append(_np.arange(off, off + len(c)).reshape(p.shape))
        cells += c
        off += len(c)
    return ndarray(cells, _np.stack(idxs, axis=axis), kk)


def _boolop(f):
    def g(x, y):
        if isinstance(x, (_NoMask, _np.bool_)):
            x = bool(x)
        if isinstance(y, (_NoMask, _np.bool_)):
            y = bool(y)
        if not isinstance(x, ndarray) and not isinstance(y, ndarray):
            tx = x.e if isinstance(x, SymBool) else z3.BoolVal(bool(x))
            ty = y.e if isinstance(y, SymBool) else z3.BoolVal(bool(y))
            r = _simp(f(tx, ty))
            return True if z3.is_true(r) else (False if z3.is_false(r) else SymBool(r))
        if not isinstance(x, ndarray):
            x, y = y, x
        xd = x.data if isinstance(x, MaskedArray) else x
        yd = y.data if isinstance(y, MaskedArray) else y
        a, b, shape, _ = ndarray._operands(xd, yd)
        b = [v if z3.is_bool(v) else v != 0 for v in b]
        a = [v if z3.is_bool(v) else v != 0 for v in a]
        return ndarray._new([_simp(f(p, q)) for p, q in zip(a, b)], shape, 'b')
    return g


logical_or = _boolop(z3.Or)
logical_and = _boolop(z3.And)


def logical_not(x):
    return ~x


def broadcast_to(a, shape):
    shape = tuple(shape)
    if not isinstance(a, ndarray):
        t, k = _scalar_term(bool(a) if isinstance(a, (bool, _np.bool_, _NoMask)) else a)
        return ndarray._new([t] * int(_np.prod(shape)), shape, k)
    return ndarray(a.buf, _np.broadcast_to(a.idx, shape), a.kind)


def where(cond, x=None, y=None):
    if x is None and y is None:
        cd = cond._index_array() if isinstance(cond, MaskedArray) else cond
        bits = [symx.CTX.decide(c) for c in cd.cells()]
        return _np.nonzero(_np.array(bits, dtype=bool).reshape(cd.shape))
    cd = cond.data if isinstance(cond, MaskedArray) else cond
    xs = x if isinstance(x, ndarray) else _full_like(cd, x)
    ys = y if isinstance(y, ndarray) else _full_like(cd, y)
    ci, xi, yi = _np.broadcast_arrays(cd.idx, xs.idx, ys.idx)
    kk = join_kinds((xs.kind, ys.kind))
    vals = [z3.If(cd.buf[c], _cast(xs.buf[a], xs.kind, kk), _cast(ys.buf[b], ys.kind, kk)) for c, a, b in zip(ci.ravel().tolist(), xi.ravel().tolist(), yi.ravel().tolist())]
    return ndarray._new(vals, ci.shape, kk)


def minimum(a, b):
    return where(a < b, a, b)


def maximum(a, b):
    return where(a > b, a, b)


def issubdtype(a, b):
    ka = _kind_of_dtype(a.kind if isinstance(a, _DType) else a)
    name = getattr(b, '__name__', '')
    if name == 'integer':                       # abstract numpy.integer: signed and unsigned
        return ka in ('i', 'u')
    if name == 'number':
        return ka in ('i', 'u', 'f')
    return ka == _kind_of_dtype(b)


def isfinite(a):
    return ndarray._new([_T()] * a.size, a.shape, 'b')


ma = types.ModuleType('numpy.ma')
ma.MaskedArray = MaskedArray
ma.masked_array = None
ma.masked = masked
ma.nomask = NOMASK


def _is_masked(x):
    if isinstance(x, MaskedArray) and x._mask is not None:
        return bool(x._mask.any())
    return False


def _ma_array(data, dtype=None, copy=False, mask=nomask, fill_value=None, **kw):
    k = _kind_of_dtype(dtype)
    own = None
    share = (not copy) and isinstance(data, ndarray) and (k is None or k == data.kind)
    if isinstance(data, MaskedArray):
        # copy=False (the default): the new array views the same data AND the same mask array, as numpy does
        d = ndarray(data.buf, data.idx, data.kind) if share else _core_array(data.data, dtype=dtype)
        own = None if data._mask is None else (data._mask if share else data._mask.copy())
        if fill_value is None:
            fill_value = data._fill
    elif isinstance(data, ndarray):
        d = ndarray(data.buf, data.idx, data.kind) if share else _core_array(data, dtype=dtype)
    elif isinstance(data, (list, tuple)) and data and _b.all(isinstance(o, ndarray) for o in data):
        d = _core_array(list(data), dtype=dtype)
        if _b.any(isinstance(o, MaskedArray) and o._mask is not None for o in data):
            mc = [m for o in data for m in (o.maskcells() if isinstance(o, MaskedArray) else [_F()] * o.size)]
            own = ndarray._new(mc, d.shape, 'b')
            if not bool(own.any()):
                own = None
    else:
        d = _core_array(data, dtype=dtype)
    m = own
    if mask is NOMASK:
        mask = None
    if mask is not nomask and mask is not None:
        if mask is False or mask is True or isinstance(mask, _np.bool_):
            mm = ndarray._new([z3.BoolVal(bool(mask))] * d.size, d.shape, 'b')
        else:
            mm = mask.data if isinstance(mask, MaskedArray) else mask
            if isinstance(mm, (list, tuple)):
                mm = _core_array(list(mm), dtype='b')
            if mm.kind != 'b':
                mm = _core_array(mm, dtype='b')
            if mm.shape != d.shape:
                if mm.size == 1:
                    mm = ndarray._new(mm.cells() * d.size, d.shape, 'b')
                elif mm.size == d.size:
                    mm = ndarray._new(mm.cells(), d.shape, 'b')
                else:
                    raise ValueError("Mask and data not compatible: data size is %d, mask size is %d." % (d.size, mm.size))
            elif copy or isinstance(mask, (list, tuple)):
                mm = mm.copy()
            # else: numpy keeps the very mask array it was given (np.array(mask, copy=False))
        m = mm if own is None else ndarray._new([_simp(z3.Or(a, b)) for a, b in zip(mm.cells(), own.cells())], d.shape, 'b')
    return MaskedArray(d, m, fill_value)


def _ma_asarray(x, dtype=None, order=None):
    if isinstance(x, MaskedArray) and dtype is None:
        return MaskedArray(ndarray(x.buf, x.idx, x.kind), x._mask, x._fill)     # a new view: same data, same mask array
    if isinstance(x, ndarray) and dtype is None:
        return MaskedArray(x, None)
    return _ma_array(x, dtype=dtype, copy=False)


def _ma_empty(shape, dtype=None):
    return MaskedArray(empty(shape, dtype), None)


def _shrink(m):
    if m is None:
        return None
    return m if bool(m.any()) else None


def _ma_where(cond, x=None, y=None):
    if x is None and y is None:
        return where(cond.filled(False) if isinstance(cond, MaskedArray) else cond)
    cf = cond.filled(False) if isinstance(cond, MaskedArray) else cond
    xd = x.data if isinstance(x, MaskedArray) else x
    yd = y.data if isinstance(y, MaskedArray) else y
    data = where(cf, xd, yd)
    n, shape = data.size, data.shape
    xm = ndarray._new(_bc(x._mask, shape), shape, 'b') if isinstance(x, MaskedArray) and x._mask is not None else False
    ym = ndarray._new(_bc(y._mask, shape), shape, 'b') if isinstance(y, MaskedArray) and y._mask is not None else False
    mask = where(cf, xm, ym)
    if isinstance(cond, MaskedArray) and cond._mask is not None:
        mask = ndarray._new([_simp(z3.Or(c, m)) for c, m in zip(_bc(cond._mask, shape), mask.cells())], shape, 'b')
    else:
        mask = ndarray._new([_simp(m) for m in mask.cells()], shape, 'b')
    return MaskedArray(data, _shrink(mask))


def _ma_extreme(cmp):
    def f(a, b):
        a = _ma_asarray(a)
        return _ma_where(cmp(a, b), a, b)
    return f


def _ma_mean(a, axis=None):
    a = _ma_asarray(a)
    if axis is None:
        return a.mean()
    ax = axis % a.ndim
    di = _np.moveaxis(a.idx, ax, 0)
    n = di.shape[0]
    out_shape = di.shape[1:]
    dcols = di.reshape(n, -1)
    if a._mask is None:
        vals = [(z3.Sum(*[a.buf[dcols[r, c]] for r in range(n)]) if n > 1 else a.buf[dcols[0, c]]) / n for c in range(dcols.shape[1])]
        return MaskedArray(ndarray._new(vals, out_shape, 'f'), None)
    mcols = _np.moveaxis(a._mask.idx, ax, 0).reshape(n, -1)
    vals, ms = [], []
    for c in range(dcols.shape[1]):
        col = [a.buf[dcols[r, c]] for r in range(n)]
        mk = [a._mask.buf[mcols[r, c]] for r in range(n)]
        cnt, tot = a._count_sum(col, mk)
        allm = _simp(z3.And(*mk))
        vals.append(z3.If(allm, z3.RealVal(0), MaskedArray._div_count(tot, cnt, n)))
        ms.append(allm)
    return MaskedArray(ndarray._new(vals, out_shape, 'f'), ndarray._new(ms, out_shape, 'b'))


def _ma_std(a, axis=None):
    return _ma_asarray(a).std(axis)


ma.is_masked = _is_masked
ma.array = _ma_array
ma.masked_array = _ma_array
ma.asarray = _ma_asarray
ma.empty = _ma_empty
ma.where = _ma_where
ma.minimum = _ma_extreme(operator.lt)
ma.maximum = _ma_extreme(operator.gt)
ma.mean = _ma_mean
ma.std = _ma_std
ma.getmask = lambda a: a.mask if isinstance(a, MaskedArray) else NOMASK
ma.getmaskarray = lambda a: ((a._mask if a._mask is not None else ndarray._new([_F()] * a.size, a.shape, 'b')) if isinstance(a, MaskedArray) else ndarray._new([_F()] * a.size, a.shape, 'b'))
ma.getdata = lambda a: a.data if isinstance(a, ndarray) else a


def install():
    from . import symnp_ext
    symnp_ext.apply()
    me = sys.modules[__name__]
    sys.modules['numpy'] = me
    sys.modules['numpy.ma'] = ma
