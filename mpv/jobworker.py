"""Job worker process: boots one property's analysis environment on the scratch copy and serves
plan / job requests as JSON lines (protocol on the original stdout; anything the analysed code prints
goes to stderr)."""
import os
import sys
import json
import time
import importlib
import traceback


def main():
    prop, scratch = sys.argv[1], sys.argv[2]
    proto = os.fdopen(os.dup(1), 'w')
    os.dup2(2, 1)
    sys.stdout = sys.stderr
    sys.dont_write_bytecode = True
    sys.setrecursionlimit(4000)
    import threading
    parent = os.getppid()

    def watchdog():
        while True:
            time.sleep(2)
            if os.getppid() != parent:
                os._exit(3)
    threading.Thread(target=watchdog, daemon=True).start()
    mod = importlib.import_module('mpv.props.' + prop)
    booted = False
    for line in sys.stdin:
        req = json.loads(line)
        t0 = time.time()
        try:
            if not booted:
                mod.boot(scratch)
                booted = True
            if req['op'] == 'plan':
                out = {'ok': True, 'jobs': mod.plan(req['tier'], req['seed'])}
            elif req['op'] == 'job':
                out = {'ok': True, 'result': mod.run_job(req['cfg'], req['seed'])}
            elif req['op'] == 'describe':
                out = {'ok': True, 'describe': mod.describe(req['tier'])}
            elif req['op'] == 'replay':
                out = {'ok': True, 'result': mod.replay(req['record'])}
            else:
                out = {'ok': False, 'error': 'bad op'}
        except BaseException as e:       # noqa: B902 - includes engine control exceptions that escaped
            if isinstance(e, (KeyboardInterrupt, SystemExit)):
                raise
            out = {'ok': False, 'error': '%s: %s' % (type(e).__name__, e), 'trace': traceback.format_exc()[-3000:]}
        out['wall_s'] = time.time() - t0
        proto.write(json.dumps(out, default=str) + '\n')
        proto.flush()


if __name__ == '__main__':
    main()
