"""Wider numpy / numpy.ma surface for the symbolic stand-in (functions the pinned tree does not call but
that realistic edits of it do).  Everything here follows numpy 1.26 semantics in the real-number model and is
validated like the core: every explored path is re-run on the real numpy and any disagreement stops the run.

Non-finite values do not exist in the model: isnan/isinf are constantly False, isfinite constantly True, and
an operation that would create inf/nan (plain division by zero, sqrt of a negative number) ends the path as
`outside`."""
import operator
import contextlib

import z3

from . import symx
from . import symnp as S
from .symx import SymNum, SymBool, Outside, Inconclusive, lift

_np = S._np
ndarray, MaskedArray, masked, NOMASK = S.ndarray, S.MaskedArray, S.masked, S.NOMASK
_new = ndarray._new
R = z3.RealVal
_core_array = S.array          # captured before apply() rebinds the public names


class _ScalarType(object):
    """numpy.float64 & co.: usable as dtype and callable as a conversion"""

    def __init__(self, name, kind):
        self.__name__ = name
        self.kind = kind

    def __call__(self, x=0):
        if isinstance(x, SymNum):
            return symx.symfloat(x) if self.kind == 'f' else symx.symint(x)
        if isinstance(x, ndarray):
            return x.astype(self)
        return {'f': float, 'i': int, 'b': bool, 'u': int}[self.kind](x)

    def __eq__(self, o):
        try:
            return S._kind_of_dtype(o) == self.kind
        except TypeError:
            return False

    def __hash__(self):
        return hash(self.kind)

    def __repr__(self):
        return 'symnp.' + self.__name__


def _is_scalar(x):
    return isinstance(x, (int, float, bool, SymNum, SymBool, _np.number, _np.bool_))


def _as_nd(x, kind=None):
    if isinstance(x, ndarray):
        return x
    return _core_array(x, dtype=kind)


def _cells_mask(a):
    """(data cells, mask cells list) of any array-like"""
    if isinstance(a, MaskedArray):
        return a.data.cells(), a.maskcells()
    a = _as_nd(a)
    return a.cells(), [S._F()] * a.size


def _sqrt_term(e):
    c = symx.CTX
    e = z3.simplify(e)
    if z3.is_rational_value(e):
        num, den = e.numerator_as_long(), e.denominator_as_long()
        if num < 0:
            raise Outside("sqrt of a negative number (nan)")
        import math
        rn, rd = math.isqrt(num), math.isqrt(den)
        if rn * rn == num and rd * rd == den:
            return R(rn) / R(rd) if rd != 1 else R(rn)
        return c.sqrt(e)
    if c.decide(e < 0):
        raise Outside("sqrt of a negative number (nan)")
    return c.sqrt(e)


def np_sqrt(x):
    if isinstance(x, MaskedArray):
        # numpy.ma.sqrt / numpy.sqrt on a masked array: domain x < 0 is masked
        d, m = x.data.cells(), x.maskcells()
        nm = [S._simp(z3.Or(mm, v < 0)) for v, mm in zip(d, m)]
        vals = []
        for v, mm in zip(d, nm):
            if symx.CTX.decide(mm):
                vals.append(v)
            else:
                vals.append(_sqrt_term(v))
        return MaskedArray(_new(vals, x.shape, 'f'), _new(nm, x.shape, 'b'), x._fill)
    if isinstance(x, ndarray):
        return _new([_sqrt_term(v) for v in x.cells()], x.shape, 'f')
    return SymNum(_sqrt_term(lift(x)), 'f', True)


def _absterm(v):
    return z3.If(v < 0, -v, v)


def np_abs(x):
    if isinstance(x, MaskedArray):
        return MaskedArray(_new([_absterm(v) for v in x.data.cells()], x.shape, x.kind),
                           x._mask if x._mask is not None else _new([S._F()] * x.size, x.shape, 'b'), x._fill)      # mask shared, as numpy
    if isinstance(x, ndarray):
        return _new([_absterm(v) for v in x.cells()], x.shape, x.kind)
    if isinstance(x, SymNum):
        return abs(x)
    return abs(x)


def _pow_cells(cells, p):
    if isinstance(p, SymNum):
        p = p.__index__() if p.kind == 'i' else None
    if isinstance(p, float) and p == int(p):
        p = int(p)
    if p == 0.5:
        return [_sqrt_term(v) for v in cells], 'f'
    if not isinstance(p, int) or p < 0 or p > 6:
        raise Inconclusive("power with exponent %r is not modelled" % (p,))
    out = []
    for v in cells:
        t = R(1)
        for _ in range(p):
            t = t * v
        out.append(t)
    return out, None


def np_power(x, p):
    if isinstance(x, MaskedArray):
        vals, k = _pow_cells(x.data.cells(), p)
        return MaskedArray(_new(vals, x.shape, k or x.kind), None if x._mask is None else x._mask.copy(), x._fill)
    if isinstance(x, ndarray):
        vals, k = _pow_cells(x.cells(), p)
        return _new(vals, x.shape, k or x.kind)
    vals, k = _pow_cells([lift(x)], p)
    return SymNum(vals[0], k or symx.kind_of(x), True)


def np_square(x):
    return np_power(x, 2)


def _reduce_axis(a, axis):
    """-> (n, out_shape, data columns idx, mask columns idx or None)"""
    ax = axis % a.ndim
    di = _np.moveaxis(a.idx, ax, 0)
    n = di.shape[0]
    mi = None
    if isinstance(a, MaskedArray) and a._mask is not None:
        mi = _np.moveaxis(a._mask.idx, ax, 0).reshape(n, -1)
    return n, di.shape[1:], di.reshape(n, -1), mi


def arr_sum(a, axis=None):
    if axis is None:
        if isinstance(a, MaskedArray) and a._mask is not None:
            bits = [symx.CTX.decide(m) for m in a.maskcells()]
            live = [v for v, b in zip(a.cells(), bits) if not b]
            if not live:
                return masked
            return SymNum(z3.Sum(*live) if len(live) > 1 else live[0], a.kind if a.kind != 'b' else 'i', True)
        c = a.cells()
        if a.kind == 'b':
            c = [z3.If(x, R(1), R(0)) for x in c]
        return SymNum(z3.Sum(*c) if len(c) > 1 else (c[0] if c else R(0)), a.kind if a.kind != 'b' else 'i', True)
    n, oshape, dc, mc = _reduce_axis(a, axis)
    vals, ms = [], []
    for c in range(dc.shape[1]):
        col = [a.buf[dc[r, c]] for r in range(n)]
        if mc is None:
            vals.append(z3.Sum(*col) if n > 1 else col[0])
        else:
            mk = [a._mask.buf[mc[r, c]] for r in range(n)]
            vals.append(z3.Sum(*[z3.If(m, R(0), v) for m, v in zip(mk, col)]) if n > 1 else z3.If(mk[0], R(0), col[0]))
            ms.append(S._simp(z3.And(*mk)))
    if isinstance(a, MaskedArray):
        return MaskedArray(_new(vals, oshape, a.kind), _new(ms, oshape, 'b') if mc is not None else None)
    return _new(vals, oshape, a.kind)


def arr_var(a, axis=None):
    if axis is not None:
        raise Inconclusive("var/std with axis not modelled")
    if isinstance(a, MaskedArray) and a._mask is not None:
        mu = a.mean()
        if mu is masked:
            return masked
        bits = [symx.CTX.decide(m) for m in a.maskcells()]
        live = [symx.CTX.fold(v) for v, b in zip(a.cells(), bits) if not b]
    else:
        live = a.cells()
        if not live:
            raise Outside("variance of an empty array (nan)")
        mu = SymNum((z3.Sum(*live) if len(live) > 1 else live[0]) / len(live), 'f', True)
    sq = [(v - mu.e) * (v - mu.e) for v in live]
    return SymNum((z3.Sum(*sq) if len(sq) > 1 else sq[0]) / len(sq), 'f', True)


def nd_std(a, axis=None):
    v = arr_var(a, axis)
    if v is masked:
        return masked
    return SymNum(symx.CTX.sqrt(v.e), 'f', True)


def arr_clip(a, lo=None, hi=None, out=None):
    def cl(v):
        if hi is not None:
            h = lift(hi)
            v = z3.If(v > h, h, v)
        if lo is not None:
            l_ = lift(lo)
            v = z3.If(v < l_, l_, v)
        return v
    kind = a.kind
    if any(symx.kind_of(b) == 'f' for b in (lo, hi) if b is not None):
        kind = 'f'
    elif kind == 'u' and any(symx.CTX.decide(lift(b) < 0) for b in (lo, hi) if b is not None and not isinstance(b, ndarray)):
        kind = 'f'          # a negative integer bound does not fit uint64: numpy computes in float64
    if isinstance(a, MaskedArray):
        return MaskedArray(_new([cl(v) for v in a.data.cells()], a.shape, kind), None if a._mask is None else a._mask.copy(), a._fill)
    return _new([cl(v) for v in a.cells()], a.shape, kind)


def np_clip(a, a_min=None, a_max=None, out=None):
    if not isinstance(a, ndarray):
        v = lift(a)
        return SymNum(arr_clip(_new([v], (), symx.kind_of(a)), a_min, a_max).cells()[0], symx.kind_of(a), True)
    return arr_clip(a, a_min, a_max)


def _astype(self, dtype, copy=True):
    k = S._kind_of_dtype(dtype)
    d = _new([S._cast(v, self.kind, k) for v in (self.data.cells() if isinstance(self, MaskedArray) else self.cells())], self.shape, k)
    if isinstance(self, MaskedArray):
        return MaskedArray(d, None if self._mask is None else self._mask.copy(), self._fill)
    return d


def _flatten(self, order='C'):
    r = self.ravel(order)
    return r.copy()


def _ma_relayout(self, fn):
    """reshape / ravel of a masked array: data and mask each become a view or a copy as numpy would decide"""
    d = fn(ndarray(self.buf, self.idx, self.kind))
    m = None if self._mask is None else fn(self._mask)
    return MaskedArray(d, m, self._fill)


def _ma_reshape(self, *shape, **kw):
    if len(shape) == 1 and isinstance(shape[0], (list, tuple)):
        shape = tuple(shape[0])
    return _ma_relayout(self, lambda a: ndarray.reshape(a, shape, **kw))


def _ma_ravel(self, order='C'):
    return _ma_relayout(self, lambda a: ndarray.ravel(a, order))


def _like(arr, tmpl):
    """give `arr` (freshly made, C-ordered) the memory layout of tmpl, as numpy's *_like functions do (order='K')"""
    t = tmpl.idx
    if t.ndim < 2 or t.flags['C_CONTIGUOUS'] or not t.flags['F_CONTIGUOUS'] or t.shape != arr.idx.shape:
        return arr
    n = t.size
    new_idx = _np.arange(n).reshape(t.shape[::-1]).T            # column-major positions
    cells = arr.cells()
    buf = [None] * n
    for p_, c in zip(new_idx.ravel().tolist(), cells):
        buf[p_] = c
    return ndarray(buf, new_idx, arr.kind)


def _squeeze(self):
    if isinstance(self, MaskedArray):
        return self._view(self.idx.squeeze(), None if self._mask is None else self._mask.idx.squeeze())
    return self._view(self.idx.squeeze())


def _fill(self, v):
    t, k = S._scalar_term(v)
    for p in self.idx.ravel().tolist():
        self.buf[p] = S._cast(t, k, self.kind)


def _item(self, *a):
    if self.size != 1:
        raise ValueError("can only convert an array of size 1 to a Python scalar")
    return self.ravel()[0]


def _nd_bool(self):
    if self.size != 1:
        raise ValueError("The truth value of an array with more than one element is ambiguous. Use a.any() or a.all()")
    c = self.cells()[0]
    return symx.CTX.decide(c if self.kind == 'b' else c != 0)


def _nd_rtruediv(self, o):
    a, b, shape, kb = self._operands(o)
    for x in a:
        if symx.CTX.decide(x == 0):
            raise Outside("plain ndarray division by zero")
    return _new([y / x for x, y in zip(a, b)], shape, 'f')


def _nd_pow(self, p):
    return np_power(self, p)


def _nd_sort(self, axis=-1, kind=None, order=None):
    if self.ndim == 0:
        return
    ax = axis % self.ndim
    di = _np.moveaxis(self.idx, ax, 0)
    n = di.shape[0]
    dcols = di.reshape(n, -1)
    for c in range(dcols.shape[1]):
        items = [self.buf[dcols[r, c]] for r in range(n)]
        for i in range(1, n):
            j = i
            while j > 0 and symx.CTX.decide(items[j - 1] > items[j]):
                items[j - 1], items[j] = items[j], items[j - 1]
                j -= 1
        for r in range(n):
            self.buf[dcols[r, c]] = items[r]


def np_sort(a, axis=-1, kind=None, order=None):
    b = a.copy()
    b.sort(axis=axis)
    return b


def _ma_setitem(self, key, value):
    if value is masked:
        if self._mask is None:
            self._mask = _new([S._F()] * self.size, self.shape, 'b')
        if isinstance(key, MaskedArray):
            key = key.filled(False) if key.kind == 'b' else key.data
        ndarray.__setitem__(self._mask, key, True)
        return
    return _orig_ma_setitem(self, key, value)


_orig_ma_setitem = MaskedArray.__setitem__


def _ma_count(self, axis=None):
    if axis is None:
        return self.size - sum(1 for m in self.maskcells() if symx.CTX.decide(m))
    raise Inconclusive("count with axis not modelled")


# ---------------------------------------------------------------------------- function namespace: numpy
def np_asarray(x, dtype=None, order=None):
    k = S._kind_of_dtype(dtype)
    if isinstance(x, MaskedArray):
        d = x.data
        return d if (k is None or k == d.kind) else d.astype(k)
    if isinstance(x, ndarray):
        return x if (k is None or k == x.kind) else x.astype(k)
    return _core_array(x, dtype=dtype)


def np_array(obj, dtype=None, copy=True, **kw):
    if isinstance(obj, MaskedArray):
        obj = obj.data
    if isinstance(obj, ndarray) and not copy:
        return np_asarray(obj, dtype)
    return _core_array(obj, dtype=dtype)


def _shape_tuple(shape):
    if isinstance(shape, (list, tuple)):
        return tuple(int(s) for s in shape)
    return (int(shape),)


def np_zeros(shape, dtype=None):
    return S.full(_shape_tuple(shape), 0.0 if S._kind_of_dtype(dtype) in (None, 'f') else (False if S._kind_of_dtype(dtype) == 'b' else 0), dtype=dtype or 'f')


def np_ones(shape, dtype=None):
    return S.full(_shape_tuple(shape), 1.0 if S._kind_of_dtype(dtype) in (None, 'f') else (True if S._kind_of_dtype(dtype) == 'b' else 1), dtype=dtype or 'f')


def np_zeros_like(a, dtype=None):
    return _like(np_zeros(a.shape, dtype or a.kind), a)


def np_ones_like(a, dtype=None):
    return _like(np_ones(a.shape, dtype or a.kind), a)


def np_full_like(a, v, dtype=None):
    return _like(S.full(a.shape, v, dtype=dtype or a.kind), a)


def np_empty_like(a, dtype=None):
    return _like(S.empty(a.shape, dtype or a.kind), a)


def np_flatnonzero(a):
    """indices (in C order) of the non-zero cells: one fork per cell"""
    d = a.filled(0) if isinstance(a, MaskedArray) else a
    cells = d.ravel().cells()
    hits = [i for i, c in enumerate(cells) if symx.CTX.decide(c if d.kind == 'b' else c != 0)]
    return _np.array(hits, dtype=int)


def np_concatenate(arrs, axis=0):
    parts = [a.data if isinstance(a, MaskedArray) else _as_nd(a) for a in arrs]
    idxs = []
    cells = []
    kk = S.join_kinds(p.kind for p in parts)
    off = 0
    for p in parts:
        c = [S._cast(v, p.kind, kk) for v in p.cells()]
        idxs.append(_np.arange(off, off + len(c)).reshape(p.shape))
        cells += c
        off += len(c)
    return ndarray(cells, _np.concatenate(idxs, axis=axis), kk)


def ma_concatenate(arrs, axis=0):
    d = np_concatenate(arrs, axis)
    ms = [ndarray._new(_cells_mask(a)[1], a.shape, 'b') for a in arrs]
    m = np_concatenate(ms, axis)
    return MaskedArray(d, m)


def ma_stack(arrs, axis=0):
    d = S.stack(arrs, axis)
    mc = [m for a in arrs for m in _cells_mask(a)[1]]
    return MaskedArray(d, _new(mc, d.shape, 'b'))


def ma_vstack(arrs):
    d = S.vstack(arrs)
    mc = [m for a in arrs for m in _cells_mask(a)[1]]
    return MaskedArray(d, _new(mc, d.shape, 'b'))


_CORE_MAXIMUM, _CORE_MINIMUM = S.maximum, S.minimum


def _ufunc_masked(fn, name, a, b, out):
    """a plain numpy ufunc applied to operands of which at least one is a MaskedArray (or with out=): numpy computes
    on the RAW data of both operands; MaskedArray.__array_wrap__ then gives the result the union of the operands'
    masks (the data under the mask is whatever the raw computation produced); with out= the values are written into
    out's buffer, and out - if it is a MaskedArray - receives a NEW mask array (union incl. its own old mask); a
    plain-ndarray out stays a plain ndarray: the masks of the operands are dropped"""
    da = a.data if isinstance(a, MaskedArray) else a
    db = b.data if isinstance(b, MaskedArray) else b
    if not isinstance(da, ndarray):
        da = S._full_like(db, da)
    r = fn(da, db)
    if r is NotImplemented:
        r = fn(db, da) if name in ('maximum', 'minimum', 'add', 'multiply') else r
    masked_ops = [x for x in (a, b) if isinstance(x, MaskedArray)]
    m = None
    if masked_ops and (out is None or isinstance(out, MaskedArray)):
        cells = None
        for x in masked_ops:
            mc = S._bc(x._mask, r.shape) if x._mask is not None else [S._F()] * r.size
            cells = mc if cells is None else [S._simp(z3.Or(p_, q_)) for p_, q_ in zip(cells, mc)]
        m = _new(cells, r.shape, 'b')
    if out is None:
        return MaskedArray(r, m) if masked_ops else r
    if r.kind == 'f' and out.kind in ('i', 'b', 'u'):
        raise S.UFuncTypeError("Cannot cast ufunc '%s' output from dtype('float64') to dtype('int64') with casting rule 'same_kind'" % name)
    if tuple(r.shape) != tuple(out.shape):
        raise ValueError("non-broadcastable output operand with shape %s doesn't match the broadcast shape %s" % (out.shape, r.shape))
    for i_, v in zip(out.idx.ravel().tolist(), r.cells()):
        out.buf[i_] = S._cast(v, r.kind, out.kind) if r.kind != out.kind else v
    if isinstance(out, MaskedArray):
        out._mask = m if m is not None else out._mask
    return out


def _binary(fn, name):
    def f(a, b, out=None, **kw):
        if kw.get('where', True) is not True:
            raise Inconclusive("where= argument of a ufunc is not modelled")
        if out is not None or (name in ('maximum', 'minimum') and (isinstance(a, MaskedArray) or isinstance(b, MaskedArray))):
            if isinstance(out, tuple):
                out = out[0]
            if not isinstance(a, ndarray) and not isinstance(b, ndarray):
                raise Inconclusive("ufunc with out= on scalars")
            if not isinstance(b, ndarray):
                b = S._full_like(a.data if isinstance(a, MaskedArray) else a, b)
            return _ufunc_masked(fn, name, a, b, out)
        if isinstance(a, ndarray) or isinstance(b, ndarray):
            return fn(a, b)
        return fn(SymNum(lift(a), symx.kind_of(a), True), b)
    f.__name__ = name
    return f


def np_can_cast(from_, to, casting='safe'):
    def k(x):
        if isinstance(x, ndarray):
            return x.kind
        if isinstance(x, S._DType):
            return x.kind
        return S._kind_of_dtype(x)
    a, b = k(from_), k(to)
    if casting in ('unsafe',):
        return True
    order = {'b': 0, 'i': 1, 'u': 1, 'f': 2}
    if casting in ('safe', 'no', 'equiv'):
        if casting == 'safe' and {a, b} == {'i', 'u'}:
            return False        # neither int64 -> uint64 nor uint64 -> int64 is safe
        return order[a] <= order[b] if casting == 'safe' else a == b
    if casting == 'same_kind':
        if (a, b) == ('i', 'u'):
            return False
        return order[a] <= order[b]
    raise Inconclusive("can_cast casting=%r" % (casting,))


def _axis_fold(a, axis, pick):
    """min / max along an axis: masked cells are skipped, a column with no valid cell is masked"""
    n, oshape, dc, mc = _reduce_axis(a, axis)
    vals, ms = [], []
    for c in range(dc.shape[1]):
        col = [a.buf[dc[r, c]] for r in range(n)]
        mk = [a._mask.buf[mc[r, c]] for r in range(n)] if mc is not None else [S._F()] * n
        acc, valid = col[0], S._simp(z3.Not(mk[0]))
        for v, m_ in zip(col[1:], mk[1:]):
            acc = z3.If(z3.And(z3.Not(m_), z3.Or(z3.Not(valid), pick(v, acc))), v, acc)
            valid = S._simp(z3.Or(valid, z3.Not(m_)))
        vals.append(S._simp(acc))
        ms.append(S._simp(z3.Not(valid)))
    d = _new(vals, oshape, a.kind)
    if isinstance(a, MaskedArray):
        return MaskedArray(d, _new(ms, oshape, 'b') if mc is not None else None)
    return d


def _axis_bool(a, axis, op):
    n, oshape, dc, mc = _reduce_axis(a, axis)
    vals = []
    for c in range(dc.shape[1]):
        col = [a.buf[dc[r, c]] for r in range(n)]
        if a.kind != 'b':
            col = [x != 0 for x in col]
        vals.append(S._simp(op(*col)) if n > 1 else col[0])
    return _new(vals, oshape, 'b')


def ma_average(a, axis=None, weights=None, returned=False):
    """numpy.ma.average: sum(w * a) / sum(w) over the NON-missing entries (a missing entry drops out together with its
    weight); a cell / the whole result is missing when nothing contributes"""
    a = a if isinstance(a, MaskedArray) else MaskedArray(_as_nd(a), None)
    if weights is None:
        r = a.mean(axis) if axis is not None else a.mean()
        return (r, None) if returned else r
    if axis is None:
        flat = a.ravel()
        wl = [lift(w) for w in (weights.cells() if isinstance(weights, ndarray) else list(S.flatten_list(weights) if hasattr(S, 'flatten_list') else weights))]
        cols = [(flat.data.cells(), flat.maskcells(), wl)]
        oshape = None
    else:
        n, oshape, dc, mc = _reduce_axis(a, axis)
        if isinstance(weights, ndarray):
            wl = [lift(w) for w in weights.cells()]
        else:
            wl = [lift(w) for w in weights]
        if len(wl) != n:
            raise ValueError("Length of weights not compatible with specified axis.")
        cols = []
        for c in range(dc.shape[1]):
            cols.append(([a.buf[dc[r, c]] for r in range(n)], [a._mask.buf[mc[r, c]] for r in range(n)] if mc is not None else [S._F()] * n, wl))
    vals, ms, dens = [], [], []
    for vs, mk, ws in cols:
        num = z3.Sum(*[z3.If(m_, R(0), w * v) for v, m_, w in zip(vs, mk, ws)]) if len(vs) > 1 else z3.If(mk[0], R(0), ws[0] * vs[0])
        den = z3.Sum(*[z3.If(m_, R(0), w) for m_, w in zip(mk, ws)]) if len(vs) > 1 else z3.If(mk[0], R(0), ws[0])
        allm = S._simp(z3.And(*mk))
        if symx.CTX.decide(z3.And(z3.Not(allm), den == 0)):
            raise Outside("numpy.ma.average with weights summing to zero")
        vals.append(num / z3.If(allm, R(1), den))
        ms.append(allm)
        dens.append(den)
    if oshape is None:
        if symx.CTX.decide(ms[0]):
            return (S.masked, None) if returned else S.masked
        r = SymNum(vals[0], 'f', True)
        return (r, SymNum(dens[0], 'f', True)) if returned else r
    r = MaskedArray(_new(vals, oshape, 'f'), _new(ms, oshape, 'b'))
    return (r, MaskedArray(_new(dens, oshape, 'f'), None)) if returned else r


def ma_divide(a, b, out=None, **kw):
    """numpy.ma.divide / true_divide: the DOMAINED division - a zero divisor gives a missing cell, whatever the
    operands are (masked, plain or scalar)"""
    if out is not None:
        raise Inconclusive("numpy.ma.divide with out=")
    if isinstance(a, MaskedArray):
        return a._div(a, b)
    if isinstance(b, MaskedArray):
        return b._div(a, b)
    if isinstance(a, ndarray):
        am = MaskedArray(a, None)
        return am._div(am, b)
    if isinstance(b, ndarray):
        bm = MaskedArray(b, None)
        return bm._div(a, bm)
    return a / b


def ma_masked_values(x, value, rtol=1e-5, atol=1e-8, copy=True, shrink=True):
    """numpy.ma.masked_values: floating data is compared with isclose(x, value, rtol, atol), integer data exactly;
    the result carries the value as fill value; copy=False shares the data, the mask is a new array"""
    base = x if isinstance(x, ndarray) else _as_nd(x)
    d = base.data if isinstance(base, MaskedArray) else base
    t, k = S._scalar_term(value)
    if d.kind == 'f':
        tol = z3.RealVal(str(atol)) + z3.RealVal(str(rtol)) * z3.If(t < 0, -t, t)
        tol = z3.simplify(tol)
        cond = [S._simp(z3.And(c - t <= tol, t - c <= tol)) for c in d.cells()]
    else:
        cond = [S._simp(c == t) for c in d.cells()]
    old = base.maskcells() if isinstance(base, MaskedArray) else [S._F()] * d.size
    new = [S._simp(z3.Or(c, o)) for c, o in zip(cond, old)]
    return MaskedArray(d.copy() if copy else ndarray(d.buf, d.idx, d.kind), _new(new, d.shape, 'b'), value)


def np_negative(a):
    return -a


def _nf(a, which):
    """which: 0 isinf, 1 isnan, 2 isfinite -- exact for values produced by a plain division, False/True otherwise"""
    def one(cell):
        i, n = S.nonfinite_conditions(cell)
        return [i, n, S._simp(z3.Not(z3.Or(i, n)))][which]
    if isinstance(a, ndarray):
        d = a.data if isinstance(a, MaskedArray) else a
        r = _new([one(c) for c in d.cells()], d.shape, 'b')
        if isinstance(a, MaskedArray):
            return MaskedArray(r, None if a._mask is None else a._mask.copy(), True)
        return r
    if isinstance(a, SymNum):
        t = S._simp(one(a.e))
        return True if z3.is_true(t) else (False if z3.is_false(t) else SymBool(t))
    return [False, False, True][which]


def np_isinf(a):
    return _nf(a, 0)


def np_isnan(a):
    return _nf(a, 1)


def np_isfinite(a):
    return _nf(a, 2)


def np_any(a, axis=None):
    if axis is not None and isinstance(a, ndarray):
        return _axis_bool(a, axis, z3.Or)
    return a.any() if isinstance(a, ndarray) else bool(a)


def np_all(a, axis=None):
    if axis is not None and isinstance(a, ndarray):
        return _axis_bool(a, axis, z3.And)
    return a.all() if isinstance(a, ndarray) else bool(a)


def np_count_nonzero(a):
    c = a.cells()
    return sum(1 for x in c if symx.CTX.decide(x if a.kind == 'b' else x != 0))


def _method(name):
    def f(a, *args, **kw):
        if not isinstance(a, ndarray):
            a = _as_nd(a)
        return getattr(a, name)(*args, **kw)
    f.__name__ = name
    return f


def _floor(e):
    return z3.ToReal(z3.ToInt(e))


def np_floor(a):
    return _map_cells(a, _floor, None)


def np_ceil(a):
    return _map_cells(a, lambda e: -_floor(-e), None)


def np_trunc(a):
    return _map_cells(a, symx.trunc_term, None)


def _rint(e):
    f = _floor(e)
    d = e - f
    even = z3.ToInt(f) % 2 == 0
    return z3.If(d < R(1) / 2, f, z3.If(d > R(1) / 2, f + 1, z3.If(even, f, f + 1)))


def np_rint(a, out=None):
    r = _map_cells(a, _rint, None)
    if out is not None:
        for p, v in zip(out.idx.ravel().tolist(), r.cells() if isinstance(r, ndarray) else [r.e]):
            out.buf[p] = v
        return out
    return r


def _map_cells(a, fn, kind):
    if isinstance(a, MaskedArray):
        return MaskedArray(_new([fn(v) for v in a.data.cells()], a.shape, kind or a.kind), None if a._mask is None else a._mask.copy(), a._fill)
    if isinstance(a, ndarray):
        return _new([fn(v) for v in a.cells()], a.shape, kind or a.kind)
    return SymNum(fn(lift(a)), kind or symx.kind_of(a), True)


def np_isclose(a, b, rtol=1e-05, atol=1e-08, equal_nan=False):
    """|a - b| <= atol + rtol * |b| (numpy's definition), cell-wise"""
    rt, at = symx.frac(rtol), symx.frac(atol)

    def close(x, y):
        return _absterm(x - y) <= at + rt * _absterm(y)
    if isinstance(a, ndarray) or isinstance(b, ndarray):
        base = a if isinstance(a, ndarray) else b
        ad = a.data if isinstance(a, MaskedArray) else a
        bd = b.data if isinstance(b, MaskedArray) else b
        if not isinstance(ad, ndarray):
            ad = S._full_like(base, ad)
        x, y, shape, _ = ndarray._operands(ad, bd)
        return _new([close(p, q) for p, q in zip(x, y)], shape, 'b')
    return SymBool(close(lift(a), lift(b)))


def np_allclose(a, b, rtol=1e-05, atol=1e-08):
    r = np_isclose(a, b, rtol, atol)
    return r.all() if isinstance(r, ndarray) else r


class _Linalg(object):
    @staticmethod
    def norm(x, ord=None, axis=None):
        if ord is not None or axis is not None:
            raise Inconclusive("linalg.norm with ord/axis not modelled")
        d = x.data if isinstance(x, MaskedArray) else _as_nd(x)       # numpy converts with asarray: the mask is dropped
        c = d.cells()
        tot = z3.Sum(*[v * v for v in c]) if len(c) > 1 else c[0] * c[0]
        return SymNum(symx.CTX.sqrt(tot), 'f', True)


# ---------------------------------------------------------------------------- function namespace: numpy.ma
def ma_filled(a, fill_value=None):
    if isinstance(a, MaskedArray):
        return a.filled(fill_value)
    return _as_nd(a)


def ma_getmaskarray(a):
    if isinstance(a, MaskedArray):
        if a._mask is not None:
            return a._mask          # numpy hands out the array's own mask (no copy)
        return _new(a.maskcells(), a.shape, 'b')
    a = _as_nd(a)
    return _new([S._F()] * a.size, a.shape, 'b')


def _mask_term_array(m, shape):
    """mask-like (array / bool / nomask) -> list of bool terms for shape, or None for nomask"""
    if m is None or m is NOMASK or m is False or (isinstance(m, _np.bool_) and not m):
        return None
    n = int(_np.prod(shape)) if len(shape) else 1
    if m is True or (isinstance(m, _np.bool_) and m):
        return [S._T()] * n
    if isinstance(m, MaskedArray):
        m = m.filled(True) if m.kind == 'b' else m.data
    m = _as_nd(m, 'b')
    if m.kind != 'b':
        m = m.astype('b')
    return S._bc(m, shape)


def ma_mask_or(m1, m2, copy=False, shrink=True):
    s1 = getattr(m1, 'shape', None) if isinstance(m1, ndarray) else None
    s2 = getattr(m2, 'shape', None) if isinstance(m2, ndarray) else None
    shape = s1 if s1 is not None else s2
    if shape is None:
        return NOMASK if not (m1 is True or m2 is True) else True
    a, b = _mask_term_array(m1, shape), _mask_term_array(m2, shape)
    if a is None and b is None:
        return NOMASK
    if a is None:
        r = _new(b, shape, 'b')
    elif b is None:
        r = _new(a, shape, 'b')
    else:
        r = _new([S._simp(z3.Or(x, y)) for x, y in zip(a, b)], shape, 'b')
    if shrink and not bool(r.any()):
        return NOMASK
    return r


def ma_masked_where(condition, a, copy=True):
    base = a if isinstance(a, ndarray) else _as_nd(a)
    d = base.data if isinstance(base, MaskedArray) else base
    cond = _mask_term_array(condition, d.shape) or [S._F()] * d.size
    old = base.maskcells() if isinstance(base, MaskedArray) else [S._F()] * d.size
    new = [S._simp(z3.Or(c, o)) for c, o in zip(cond, old)]
    fill = base._fill if isinstance(base, MaskedArray) else None
    if copy or not isinstance(base, ndarray) or not isinstance(a, ndarray):
        return MaskedArray(d.copy() if copy else d, _new(new, d.shape, 'b'), fill)
    # copy=False: the result is a view of `a`; numpy assigns the new mask THROUGH the shared mask array, so a masked
    # input sees the new missing cells too (and an input without a mask array receives the result's mask)
    if isinstance(base, MaskedArray):
        if base._mask is None:
            base._mask = _new([S._F()] * d.size, d.shape, 'b')
        for p_, v in zip(base._mask.idx.ravel().tolist(), new):
            base._mask.buf[p_] = v
        return MaskedArray(d, base._mask, fill)
    return MaskedArray(d, _new(new, d.shape, 'b'), fill)


def ma_masked_invalid(a, copy=True):
    return ma_masked_where(False, a, copy)


def _ma_cmp_mask(op):
    def f(x, value, copy=True):
        return ma_masked_where(op(x, value), x, copy)
    return f


def ma_count(a, axis=None):
    if isinstance(a, MaskedArray):
        return a.count(axis)
    return _as_nd(a).size


def ma_zeros(shape, dtype=None):
    return MaskedArray(np_zeros(shape, dtype), None)


def ma_ones(shape, dtype=None):
    return MaskedArray(np_ones(shape, dtype), None)


def ma_masked_all(shape, dtype=None):
    d = S.empty(_shape_tuple(shape), dtype)
    return MaskedArray(d, _new([S._T()] * d.size, d.shape, 'b'))


def ma_compressed(a):
    return S.ma.asarray(a).compressed()


def ma_make_mask(m, copy=False, shrink=True, dtype=None):
    if m is NOMASK or m is None:
        return NOMASK
    if isinstance(m, ndarray):
        t = _mask_term_array(m, m.shape)
        return _new(t, m.shape, 'b')
    return m


@contextlib.contextmanager
def errstate(**kw):
    yield


def apply():
    """attach everything to the shim's classes and namespaces"""
    N = S
    # ---- methods
    for cls in (ndarray, MaskedArray):
        cls.astype = _astype
        cls.flatten = _flatten
        cls.squeeze = _squeeze
        cls.fill = _fill
        cls.item = _item
        cls.__abs__ = np_abs
        cls.__pow__ = _nd_pow
        cls.clip = arr_clip
        cls.var = arr_var
        cls.T = property(lambda self: self.transpose())
        cls.__bool__ = _nd_bool
        cls.tolist = lambda self: [S._scalar(c, self.kind) for c in self.cells()] if self.ndim == 1 else (_ for _ in ()).throw(Inconclusive("tolist of rank>1"))
    ndarray.std = nd_std
    ndarray.sum = arr_sum
    ndarray.sort = _nd_sort
    ndarray.__rtruediv__ = _nd_rtruediv
    MaskedArray.sum = arr_sum
    _ma_min0, _ma_max0, _nd_min0, _nd_max0, _nd_any0, _nd_all0 = MaskedArray.min, MaskedArray.max, ndarray.min, ndarray.max, ndarray.any, ndarray.all
    MaskedArray.min = lambda self, axis=None, **kw: _ma_min0(self) if axis is None else _axis_fold(self, axis, lambda v, a: v < a)
    MaskedArray.max = lambda self, axis=None, **kw: _ma_max0(self) if axis is None else _axis_fold(self, axis, lambda v, a: v > a)
    ndarray.min = lambda self, axis=None, **kw: _nd_min0(self) if axis is None else _axis_fold(self, axis, lambda v, a: v < a)
    ndarray.max = lambda self, axis=None, **kw: _nd_max0(self) if axis is None else _axis_fold(self, axis, lambda v, a: v > a)
    ndarray.any = lambda self, axis=None, **kw: _nd_any0(self) if axis is None else _axis_bool(self, axis, z3.Or)
    ndarray.all = lambda self, axis=None, **kw: _nd_all0(self) if axis is None else _axis_bool(self, axis, z3.And)
    MaskedArray.reshape = _ma_reshape
    MaskedArray.ravel = _ma_ravel
    MaskedArray.__setitem__ = _ma_setitem
    MaskedArray.count = _ma_count
    MaskedArray.__rtruediv__ = lambda self, o: self._div(o, self)
    # ---- dtypes
    N.float64 = _ScalarType('float64', 'f')
    N.float32 = _ScalarType('float32', 'f')
    N.float_ = N.double = N.float64
    N.int64 = _ScalarType('int64', 'i')
    N.int32 = _ScalarType('int32', 'i')
    N.int_ = N.intp = N.int64
    N.uint = N.uint8 = N.uint16 = N.uint32 = N.uint64 = _ScalarType('uint64', 'u')
    N.unsignedinteger = _ScalarType('unsignedinteger', 'u')
    N.bool_ = _ScalarType('bool_', 'b')
    N.number = (int, float, SymNum)
    N.floating = _ScalarType('floating', 'f')
    N.integer = N.signedinteger = _ScalarType('integer', 'i')
    N.nan, N.inf, N.pi, N.e = _np.nan, _np.inf, _np.pi, _np.e
    N.newaxis = None
    N.finfo, N.iinfo = _np.finfo, _np.iinfo
    # ---- numpy functions
    N.asarray = N.asanyarray = np_asarray
    N.array = np_array
    N.zeros, N.ones, N.zeros_like, N.ones_like, N.full_like, N.empty_like = np_zeros, np_ones, np_zeros_like, np_ones_like, np_full_like, np_empty_like
    N.concatenate = np_concatenate
    N.sqrt, N.abs, N.absolute, N.fabs = np_sqrt, np_abs, np_abs, np_abs
    N.power, N.float_power, N.square = np_power, np_power, np_square
    N.clip = np_clip
    N.add = _binary(operator.add, 'add')
    N.subtract = _binary(operator.sub, 'subtract')
    N.multiply = _binary(operator.mul, 'multiply')
    N.divide = N.true_divide = _binary(operator.truediv, 'true_divide')
    N.negative = np_negative
    N.maximum = _binary(_CORE_MAXIMUM, 'maximum')
    N.minimum = _binary(_CORE_MINIMUM, 'minimum')
    N.fmax, N.fmin = N.maximum, N.minimum
    N.can_cast = np_can_cast
    def _result_type(*xs):
        ks = set((x.kind if hasattr(x, 'kind') else S._kind_of_dtype(x)) for x in xs)
        return S._DType('f' if ('f' in ks or {'i', 'u'} <= ks) else ('u' if 'u' in ks else 'i'))
    N.result_type = _result_type
    N.less, N.less_equal = _binary(operator.lt, 'less'), _binary(operator.le, 'less_equal')
    N.greater, N.greater_equal = _binary(operator.gt, 'greater'), _binary(operator.ge, 'greater_equal')
    N.equal, N.not_equal = _binary(operator.eq, 'equal'), _binary(operator.ne, 'not_equal')
    N.isnan = np_isnan
    N.isinf = N.isneginf = N.isposinf = np_isinf
    N.isfinite = np_isfinite
    N.isclose, N.allclose = np_isclose, np_allclose
    N.errstate = errstate
    N.seterr = lambda **kw: {}
    N.any, N.all = np_any, np_all
    N.count_nonzero = np_count_nonzero
    N.nonzero = lambda a: N.where(a)
    N.sum, N.mean, N.std, N.var = _method('sum'), _method('mean'), _method('std'), _method('var')
    N.min = N.amin = _method('min')
    N.max = N.amax = _method('max')
    N.nansum, N.nanmean, N.nanmin, N.nanmax, N.nanstd = N.sum, N.mean, N.min, N.max, N.std
    N.sort = np_sort
    N.floor, N.ceil, N.trunc, N.rint = np_floor, np_ceil, np_trunc, np_rint
    N.around = N.round = N.round_ = lambda a, decimals=0, out=None: np_rint(a) if decimals == 0 else (_ for _ in ()).throw(Inconclusive("round with decimals"))
    N.isscalar = _is_scalar
    N.ndim = lambda a: a.ndim if isinstance(a, ndarray) else 0
    N.shape = lambda a: a.shape if isinstance(a, ndarray) else ()
    N.size = lambda a: a.size if isinstance(a, ndarray) else 1
    N.ravel = lambda a: a.ravel()
    N.reshape = lambda a, s: a.reshape(s)
    N.transpose = lambda a, axes=None: a.transpose(*([axes] if axes is not None else []))
    N.squeeze = lambda a: a.squeeze()
    N.atleast_1d = lambda a: a if isinstance(a, ndarray) and a.ndim >= 1 else _as_nd(a).reshape((1,))
    N.linalg = _Linalg()
    N.logical_xor = S._boolop(z3.Xor)
    N.ndarray = ndarray
    N.dtype = lambda d: S._DType(S._kind_of_dtype(d))
    # ---- numpy.ma functions
    M = S.ma
    M.filled, M.getmaskarray, M.mask_or, M.masked_where = ma_filled, ma_getmaskarray, ma_mask_or, ma_masked_where
    M.masked_invalid, M.fix_invalid = ma_masked_invalid, ma_masked_invalid
    M.masked_equal, M.masked_not_equal = _ma_cmp_mask(operator.eq), _ma_cmp_mask(operator.ne)
    M.masked_values = ma_masked_values
    M.average = ma_average
    N.average = ma_average
    M.masked_less, M.masked_less_equal = _ma_cmp_mask(operator.lt), _ma_cmp_mask(operator.le)
    M.masked_greater, M.masked_greater_equal = _ma_cmp_mask(operator.gt), _ma_cmp_mask(operator.ge)
    M.count = ma_count
    M.sum = lambda a, axis=None: M.asarray(a).sum(axis)
    M.var = lambda a, axis=None: M.asarray(a).var(axis)
    M.min = M.amin = lambda a, axis=None: M.asarray(a).min(axis)
    M.max = M.amax = lambda a, axis=None: M.asarray(a).max(axis)
    M.abs = M.absolute = M.fabs = np_abs
    M.sqrt = lambda a: np_sqrt(M.asarray(a))
    M.power = np_power
    M.clip = np_clip
    M.zeros, M.ones, M.masked_all = ma_zeros, ma_ones, ma_masked_all
    M.empty_like = lambda a, dtype=None: MaskedArray(np_empty_like(a.data if isinstance(a, MaskedArray) else a, dtype), None)
    N.flatnonzero = np_flatnonzero
    M.zeros_like = lambda a: ma_zeros(a.shape, a.kind)
    M.ones_like = lambda a: ma_ones(a.shape, a.kind)
    M.stack, M.vstack, M.concatenate = ma_stack, ma_vstack, ma_concatenate
    M.compressed = ma_compressed
    M.squeeze = lambda a, axis=None: (a.squeeze() if isinstance(a, MaskedArray) else MaskedArray(_as_nd(a).squeeze(), None))
    M.ravel = lambda a: a.ravel()
    M.reshape = lambda a, s_: a.reshape(s_)
    M.transpose = lambda a, axes=None: a.transpose(*([axes] if axes is not None else []))
    M.copy = lambda a: a.copy()
    M.shape, M.size, M.ndim = N.shape, N.size, N.ndim
    M.make_mask, M.make_mask_none = ma_make_mask, lambda shape, dtype=None: np_zeros(shape, 'b')
    M.add, M.subtract, M.multiply = N.add, N.subtract, N.multiply
    M.divide = M.true_divide = ma_divide
    M.negative = np_negative
    M.logical_or, M.logical_and, M.logical_not = N.logical_or, N.logical_and, N.logical_not
    M.isMaskedArray = M.isMA = lambda x: isinstance(x, MaskedArray)
    M.sort = np_sort
    M.floor, M.ceil, M.rint = np_floor, np_ceil, np_rint
    M.masked_array = M.array
    M.core = M
    M.MaskedArray = MaskedArray
