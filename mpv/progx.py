"""Shared layer for the program-level properties (C01, C11-C16, C19, C20): the real mpilot modules from the
scratch copy run with the REAL numpy (no numeric shim); symbolic values are structure choices (z3 Ints decided
by the explorer), symbolic strings and symbolic integers."""
import os
import sys
import time
import collections

import z3

from . import symx

SCRATCH = None
HERE = os.path.dirname(os.path.dirname(os.path.abspath(__file__)))


def boot(scratch):
    global SCRATCH
    if SCRATCH is not None:
        return
    sys.path.insert(0, scratch)
    sys.path.insert(0, os.path.join(HERE, 'mpv', 'nodes'))
    sys.dont_write_bytecode = True
    import mpilot.program  # noqa: F401
    import mpilot.commands  # noqa: F401
    SCRATCH = scratch


def run_struct_job(harness, cfg, prop, seed=0, max_paths=200000, confirm=None, deadline_s=None, ob_timeout=30000):
    """explore harness(ctx, cfg) -> dict(outcome, obligations=[(label, z3 bool)], groups={label: group},
    replay=record, sig_extra=str); violated obligations are confirmed by `confirm(record, label)` which re-runs the
    concrete scenario on the real code from a clean state and returns (reproduced, why)."""
    t0 = time.time()
    symx.PINS.clear()
    symx.PINS.update(cfg.get('pin') or {})      # this job explores the slice of the space with these choices fixed
    cex, unrepro, samples, mismatches = [], [], [], []
    seen = collections.Counter()
    validated = [0]

    def on_path(ctx, out, statuses, res):
        if out.get('validated'):
            validated[0] += 1
        elif out.get('path_check') is not None:
            # translator validation: this path's own model, concretised, on the real code
            m, _ = symx.nice_model(ctx, [])
            if m is not None:
                ok, why = out['path_check'](m)
                if ok:
                    validated[0] += 1
                else:
                    mismatches.append({'why': why, 'prefix': list(ctx.prefix)})
        if len(samples) < 3 and out.get('replay') is not None:
            samples.append({'outcome': out.get('outcome'), 'scenario': out['replay'], 'obligations': [l for l, _ in out.get('obligations', [])][:8]})
        for label, st, mdl in statuses:
            if st != 'sat':
                continue
            group = out.get('groups', {}).get(label, label)
            sig = '%s %s%s' % (prop, group, (' ' + out['sig_extra']) if out.get('sig_extra') else '')
            if seen[sig] >= 2:
                cex.append({'dup': True, 'label': label})
                continue
            rec = dict(out.get('replay') or {})
            if out.get('concretise') is not None:
                # full model of the whole path + violated obligation (the status model only covers the obligation's cone)
                ob = dict(out.get('obligations', [])).get(label)
                m, _ = symx.nice_model(ctx, [z3.Not(ob)] if ob is not None else [])
                if m is None:
                    m = mdl
                if m is None:
                    m, _ = symx.nice_model(ctx, [])
                rec = out['concretise'](m, label)
            ok, why = (True, 'the explored path executed the real code on concrete structure') if confirm is None else confirm(rec, label)
            r = {'label': label, 'group': group, 'signature': sig, 'reproduced': bool(ok), 'why': why, 'record': rec, 'cfg': cfg, 'property': prop}
            if ok:
                seen[sig] += 1
                cex.append(r)
            else:
                unrepro.append(r)

    deadline = (t0 + deadline_s) if deadline_s else None
    res = symx.explore(lambda c: harness(c, cfg), max_paths=max_paths, seed=seed, ob_timeout=ob_timeout, on_path=on_path,
                       start=cfg.get('prefixes'), deadline=deadline)
    return {
        'paths': res.paths, 'decisions': res.decisions, 'queries': res.queries, 'obligations': res.obligations,
        'discharged': res.discharged, 'unknown': res.unknown[:20], 'maybe': res.maybe, 'aborted': res.aborted,
        'exhausted': res.exhausted, 'outcomes': dict(collections.Counter(res.outcomes).most_common(30)), 'solver_s': res.solver_s,
        'validated': validated[0], 'mismatches': mismatches[:10], 'cex': cex, 'unreproduced': unrepro[:10], 'samples': samples,
        'wall_s': time.time() - t0,
    }


def fact(label, ok):
    return (label, z3.BoolVal(bool(ok)))
