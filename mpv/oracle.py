"""Reference semantics of the EEMS data commands (DESIGN.md Appendix C), cell-wise z3 terms written from
docs/user/lib-eems-*.rst and the property statements -- not from the implementation.

`reference(cname, ins, params, opts)`:
    ins    : list of (data terms, mask terms) per input array, in the order the command lists them
    params : dict name -> SymNum / python number / list / str / bool  (as passed to the command)
returns dict(vals=[term per cell], undefined=[bool term per cell], defs=[constraints defining auxiliary
reference values such as a square root], kind='f'|'i'|None) or None when no reference is defined.
Statistics range over the non-missing cells of the whole array.
"""
import itertools

import z3

from . import symx

R = z3.RealVal
_cnt = itertools.count()


def term(x):
    return symx.lift(x)


def clamp(v, lo=-1, hi=1):
    lo = lo if z3.is_expr(lo) else R(lo)
    hi = hi if z3.is_expr(hi) else R(hi)
    return z3.If(v > hi, hi, z3.If(v < lo, lo, v))


def ssum(xs):
    xs = list(xs)
    if not xs:
        return R(0)
    return z3.Sum(*xs) if len(xs) > 1 else xs[0]


def isum(xs):
    xs = list(xs)
    if not xs:
        return z3.IntVal(0)
    return z3.Sum(*xs) if len(xs) > 1 else xs[0]


def live_fold(xs, ms, better):
    """extreme of the cells whose mask is False (undefined value if none is live)"""
    acc, valid = None, None
    for x, m in zip(xs, ms):
        if acc is None:
            acc, valid = x, z3.Not(m)
        else:
            acc = z3.If(z3.And(z3.Not(m), z3.Or(z3.Not(valid), better(x, acc))), x, acc)
            valid = z3.Or(valid, z3.Not(m))
    return acc


def amin(xs, ms):
    return live_fold(xs, ms, lambda a, b: a < b)


def amax(xs, ms):
    return live_fold(xs, ms, lambda a, b: a > b)


def count(ms):
    return isum([z3.If(m, 0, 1) for m in ms])


def div_by_count(tot, cnt, n):
    """tot / cnt for an integer term cnt in 1..n (kept linear in cnt by case split)"""
    e = tot / n
    for k in range(n - 1, 0, -1):
        e = z3.If(cnt == k, tot / k, e)
    return e


def amean(xs, ms):
    tot = ssum([z3.If(m, R(0), x) for x, m in zip(xs, ms)])
    return div_by_count(tot, count(ms), len(xs))


def avar(xs, ms):
    mu = amean(xs, ms)
    tot = ssum([z3.If(m, R(0), (x - mu) * (x - mu)) for x, m in zip(xs, ms)])
    return div_by_count(tot, count(ms), len(xs))


def sqrt_def(x):
    """square root as a defined value.  Inside an exploration the radicand is first simplified under the path
    condition and the executor's sqrt table is used, so that the reference and the implementation share ONE
    value whenever their radicands are the same polynomial (congruence: equal arguments, equal roots)."""
    c = symx.CTX
    if c is not None:
        return c.sqrt(c.fold(x)), z3.BoolVal(True)
    r = z3.Real('ref_sqrt!%d' % next(_cnt))
    return r, z3.And(r >= 0, r * r == x)


def topk_sum(vals, k, largest=True):
    """sum of the k largest (smallest) of vals: element i counts iff fewer than k others beat it (ties by index)"""
    out = []
    for i, v in enumerate(vals):
        beats = []
        for j, w in enumerate(vals):
            if j == i:
                continue
            if largest:
                b = z3.Or(w > v, z3.And(w == v, z3.BoolVal(j < i)))
            else:
                b = z3.Or(w < v, z3.And(w == v, z3.BoolVal(j < i)))
            beats.append(z3.If(b, 1, 0))
        rank = isum(beats)
        out.append(z3.If(rank < k, v, R(0)))
    return ssum(out)


def curve(x, Rs, Ns):
    """piecewise-linear map through the control points (Rs[i], Ns[i]) given in ANY order, flat outside;
    a value exactly on a control point takes that point's normal value"""
    p = len(Rs)
    y = R(0)
    for i in range(p):
        for j in range(p):
            if i == j:
                continue
            adj = z3.And(Rs[i] < Rs[j], *[z3.Not(z3.And(Rs[i] < Rs[k], Rs[k] < Rs[j])) for k in range(p) if k not in (i, j)])
            y = z3.If(z3.And(adj, Rs[i] < x, x <= Rs[j]),
                      Ns[i] + (x - Rs[i]) * (Ns[j] - Ns[i]) / (Rs[j] - Rs[i]), y)
    for i in range(p):
        lowest = z3.And(*[Rs[i] <= Rs[k] for k in range(p)])
        highest = z3.And(*[Rs[i] >= Rs[k] for k in range(p)])
        y = z3.If(z3.And(lowest, x <= Rs[i]), Ns[i], y)
        y = z3.If(z3.And(highest, x > Rs[i]), Ns[i], y)
    return y


FUZZY_NAME = {'CvtToFuzzyZScore': 'NormalizeZScore', 'CvtToFuzzyCat': 'NormalizeCat', 'CvtToFuzzyCurve': 'NormalizeCurve',
              'CvtToFuzzyMeanToMid': 'NormalizeMeanToMid', 'CvtToFuzzyCurveZScore': 'NormalizeCurveZScore'}


def reference(cname, ins, params):
    n = len(ins[0][0])
    F = z3.BoolVal(False)
    k = len(ins)

    def xs(j):
        return ins[j][0]

    def ms(j):
        return ins[j][1] if ins[j][1] is not None else [F] * n

    def col(i):
        return [ins[j][0][i] for j in range(k)]

    und = [F] * n
    out = {'defs': [], 'undefined': und, 'kind': None, 'error': None}

    def done(vals, undefined=None, kind=None, defs=None):
        out['vals'] = vals
        if undefined is not None:
            out['undefined'] = undefined
        out['kind'] = kind
        if defs:
            out['defs'] = defs
        return out

    if cname == 'Copy':
        return done(list(xs(0)), kind='same')
    if cname == 'Sum':
        return done([ssum(col(i)) for i in range(n)], kind='closed')
    if cname == 'Mean':
        return done([ssum(col(i)) / k for i in range(n)], kind='f')
    if cname == 'FuzzyUnion':
        return done([clamp(ssum(col(i)) / k) for i in range(n)], kind='f')
    if cname == 'Multiply':
        vals = []
        for i in range(n):
            p = col(i)[0]
            for v in col(i)[1:]:
                p = p * v
            vals.append(p)
        return done(vals, kind='closed')
    if cname == 'AMinusB':
        return done([xs(0)[i] - xs(1)[i] for i in range(n)], kind='closed')
    if cname == 'ADividedByB':
        return done([xs(0)[i] / z3.If(xs(1)[i] == 0, R(1), xs(1)[i]) for i in range(n)],
                    [xs(1)[i] == 0 for i in range(n)], kind='f')
    if cname in ('Minimum', 'FuzzyAnd'):
        f = (lambda v: v) if cname == 'Minimum' else clamp
        return done([f(amin(col(i), [F] * k)) for i in range(n)], kind='closed' if cname == 'Minimum' else None)
    if cname in ('Maximum', 'FuzzyOr'):
        f = (lambda v: v) if cname == 'Maximum' else clamp
        return done([f(amax(col(i), [F] * k)) for i in range(n)], kind='closed' if cname == 'Maximum' else None)
    if cname in ('WeightedSum', 'WeightedMean', 'FuzzyWeightedUnion'):
        w = [term(x) for x in params['Weights']]
        sw = ssum(w)
        vals = []
        for i in range(n):
            t = ssum([a * b for a, b in zip(col(i), w)])
            if cname == 'WeightedSum':
                vals.append(t)
            elif cname == 'WeightedMean':
                vals.append(t / sw)
            else:
                vals.append(clamp(t / sw))
        return done(vals, ([sw == 0] * n) if cname != 'WeightedSum' else None, kind='f' if cname != 'WeightedSum' else 'wsum')
    if cname == 'FuzzyNot':
        return done([clamp(-x) for x in xs(0)])
    if cname == 'FuzzySelectedUnion':
        kk = params['NumberToConsider']
        largest = params['TruestOrFalsest'] == 'Truest'
        return done([clamp(topk_sum(col(i), kk, largest) / kk) for i in range(n)], kind='f')
    if cname == 'FuzzyXOr':
        vals = []
        for i in range(n):
            c = col(i)
            t = amax(c, [F] * len(c))
            s = topk_sum(c, 2, True) - t
            vals.append(z3.If(t <= -1, R(-1), clamp(t - (t - s) * (s + 1) / (t + 1))))
        return done(vals, kind='f')
    if cname == 'Normalize':
        s = term(params.get('StartVal', 0))
        e = term(params.get('EndVal', 1))
        lo, hi = amin(xs(0), ms(0)), amax(xs(0), ms(0))
        return done([s + (x - lo) * (e - s) / (hi - lo) for x in xs(0)], [lo == hi] * n, kind='f')
    if cname == 'CvtToFuzzy':
        lo, hi = amin(xs(0), ms(0)), amax(xs(0), ms(0))
        h2l = params.get('Direction') == 'HighToLow'
        tt = term(params['TrueThreshold']) if 'TrueThreshold' in params else (lo if h2l else hi)
        ft = term(params['FalseThreshold']) if 'FalseThreshold' in params else (hi if h2l else lo)
        return done([clamp(R(-1) + (x - ft) * 2 / (tt - ft)) for x in xs(0)], kind='f')
    if cname == 'CvtFromFuzzy':
        tt, ft = term(params['TrueThreshold']), term(params['FalseThreshold'])
        return done([ft + (x + 1) * (tt - ft) / 2 for x in xs(0)], kind='f')
    if cname == 'CvtToBinary':
        T = term(params['Threshold'])
        l2h = params['Direction'] == 'LowToHigh'
        return done([z3.If(x < T, R(0 if l2h else 1), R(1 if l2h else 0)) for x in xs(0)], kind='f')

    fuzzy_variant = cname in FUZZY_NAME
    base = FUZZY_NAME.get(cname, cname)
    post = clamp if fuzzy_variant else (lambda v: v)
    nv = 'FuzzyValues' if fuzzy_variant else 'NormalValues'

    if base == 'NormalizeCat':
        Rs = [term(v) for v in params['RawValues']]
        Ns = [term(v) for v in params[nv]]
        d = term(params['DefaultFuzzyValue' if fuzzy_variant else 'DefaultNormalValue'])
        vals = []
        for x in xs(0):
            y = d
            for r_, n_ in zip(Rs, Ns):
                y = z3.If(x == r_, n_, y)
            vals.append(post(y))
        return done(vals, kind='f')
    if base == 'NormalizeCurve':
        Rs = [term(v) for v in params['RawValues']]
        Ns = [term(v) for v in params[nv]]
        return done([post(curve(x, Rs, Ns)) for x in xs(0)], kind='f')
    if base == 'NormalizeZScore':
        if fuzzy_variant:
            tt = term(params.get('TrueThresholdZScore', 1))
            ft = term(params.get('FalseThresholdZScore', -1))
            s, e = R(-1), R(1)
        else:
            if 'TrueThresholdZScore' not in params or 'FalseThresholdZScore' not in params:
                return None     # defaults are ambiguous between docs and code: not asserted
            tt, ft = term(params['TrueThresholdZScore']), term(params['FalseThresholdZScore'])
            s, e = term(params.get('StartVal', 0)), term(params.get('EndVal', 1))
        mu = amean(xs(0), ms(0))
        sd, d = sqrt_def(avar(xs(0), ms(0)))
        x1 = mu + tt * sd       # maps to e
        x2 = mu + ft * sd       # maps to s
        vals = [clamp(e + (x - x1) * (s - e) / (x2 - x1), s, e) for x in xs(0)]
        if fuzzy_variant:
            vals = [clamp(v) for v in vals]
        return done(vals, [x1 == x2] * n, kind='f', defs=[d])
    if base == 'NormalizeCurveZScore':
        Zs = [term(v) for v in params['ZScoreValues']]
        Ns = [term(v) for v in params[nv]]
        mu = amean(xs(0), ms(0))
        sd, d = sqrt_def(avar(xs(0), ms(0)))
        Rs = [mu + z * sd for z in Zs]
        return done([post(curve(x, Rs, Ns)) for x in xs(0)], kind='f', defs=[d])
    if base == 'NormalizeMeanToMid':
        Ns = [term(v) for v in params[nv]]
        if len(Ns) != 5:
            return None
        ignore0 = bool(params['IgnoreZeros'])
        x0, m0 = xs(0), ms(0)
        lo, hi = amin(x0, m0), amax(x0, m0)
        cm = [z3.Or(m, x == 0) for x, m in zip(x0, m0)] if ignore0 else list(m0)     # cells not considered
        mu = amean(x0, cm)
        below = [z3.Or(c, z3.Not(x <= mu)) for x, c in zip(x0, cm)]
        above = [z3.Or(c, z3.Not(x > mu)) for x, c in zip(x0, cm)]
        lowmean, highmean = amean(x0, below), amean(x0, above)
        Rs = [lo, lowmean, mu, highmean, hi]
        # an end point equal to its neighbour is dropped together with its normal value
        drop_hi = Rs[4] == Rs[3]
        drop_lo = Rs[0] == Rs[1]
        vals = []
        for x in x0:
            full = curve(x, Rs, Ns)
            nohi = curve(x, [Rs[0], Rs[1], Rs[2], Rs[4]], [Ns[0], Ns[1], Ns[2], Ns[4]])
            nolo = curve(x, [Rs[0], Rs[2], Rs[3], Rs[4]], [Ns[0], Ns[2], Ns[3], Ns[4]])
            both = curve(x, [Rs[0], Rs[2], Rs[4]], [Ns[0], Ns[2], Ns[4]])
            vals.append(post(z3.If(drop_hi, z3.If(drop_lo, both, nohi), z3.If(drop_lo, nolo, full))))
        return done(vals, kind='f')
    return None


def expected_kind(cname, ref_kind, in_kinds, params):
    """result element kind the property demands: integer only when every input is integer and the operation
    is closed on integers; float otherwise"""
    if ref_kind == 'same':
        return in_kinds[0]
    if ref_kind == 'closed':
        return 'i' if all(kd == 'i' for kd in in_kinds) else 'f'
    if ref_kind == 'wsum':
        wk = [symx.kind_of(w) for w in params.get('Weights', [])]
        return 'i' if all(kd == 'i' for kd in in_kinds) and all(kd_ in ('i', 'b') for kd_ in wk) else 'f'
    if ref_kind == 'f':
        return 'f'
    return None
