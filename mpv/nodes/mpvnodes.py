"""Verification-only command library (lives in /verif, never in /repo): graph nodes whose execute() logs the
call and returns a structural value naming every dependency result it received."""
from mpilot import params
from mpilot.commands import Command

LOG = []


class Node(Command):
    inputs = {
        "D": params.ResultParameter(required=False),
        "D2": params.ResultParameter(required=False),
        "D3": params.ResultParameter(required=False),
        "L": params.ListParameter(params.ResultParameter(), required=False),
        "NL": params.ListParameter(params.ListParameter(params.ResultParameter()), required=False),
    }
    output = params.Parameter()

    def execute(self, **kw):
        LOG.append(self.result_name)
        deps = []
        for k in ("D", "D2", "D3"):
            if k in kw:
                deps.append(("D", kw[k].result_name, kw[k].is_finished or None, kw[k].result))
        for c in kw.get("L", []):
            deps.append(("L", c.result_name, None, c.result))
        for sub in kw.get("NL", []):
            for c in sub:
                deps.append(("NL", c.result_name, None, c.result))
        return (self.result_name, tuple((k, n, r) for k, n, f, r in deps))


FAIL = set()     # result names whose execute() fails (FlakyNode); the harness clears it to "fix the cause"


class FlakyNode(Node):
    """a command whose execute() fails while its result name is listed in FAIL (a fault inside execute, e.g. a bad input file)"""
    inputs = dict(Node.inputs)
    output = params.Parameter()

    def execute(self, **kw):
        if self.result_name in FAIL:
            raise RuntimeError("injected failure in %s" % self.result_name)
        n = len(LOG)
        try:
            return Node.execute(self, **kw)
        except BaseException:
            del LOG[n]      # an attempt that failed while pulling a failing dependency is not a completed execution
            raise


class NoneNode(Node):
    """side-effect-only command: execute() returns None"""
    inputs = dict(Node.inputs)
    output = params.Parameter()

    def execute(self, **kw):
        Node.execute(self, **kw)
        return None


class LazyNode(Node):
    """a consumer that never reads the results of its list-referenced dependencies"""
    inputs = dict(Node.inputs)
    output = params.Parameter()

    def execute(self, **kw):
        LOG.append(self.result_name)
        deps = []
        for k in ("D", "D2", "D3"):
            if k in kw:
                deps.append(("D", kw[k].result_name, kw[k].result))
        return (self.result_name, tuple(deps))


class Strict(Command):
    """a command with a required parameter (for missing-parameter faults)"""
    inputs = {"Needed": params.NumberParameter(), "D": params.ResultParameter(required=False),
              "L": params.ListParameter(params.ResultParameter(), required=False),
              "NL": params.ListParameter(params.ListParameter(params.ResultParameter()), required=False)}
    output = params.Parameter()

    def execute(self, **kw):
        LOG.append(self.result_name)
        return None


class Echo(Command):
    """returns its cleaned arguments (serialisation round trips compare them)"""
    inputs = {
        "S": params.StringParameter(required=False),
        "N": params.NumberParameter(required=False),
        "B": params.BooleanParameter(required=False),
        "L": params.ListParameter(params.NumberParameter(), required=False),
        "LS": params.ListParameter(params.StringParameter(), required=False),
        "LL": params.ListParameter(params.ListParameter(params.NumberParameter()), required=False),
        "R": params.ResultParameter(required=False),
        "RL": params.ListParameter(params.ResultParameter(), required=False),
    }
    output = params.Parameter()

    def execute(self, **kw):
        out = []
        for k in sorted(kw):
            v = kw[k]
            if hasattr(v, 'result_name'):
                v = ('ref', v.result_name)
            elif isinstance(v, list):
                v = [(('ref', x.result_name) if hasattr(x, 'result_name') else x) for x in v]
            out.append((k, v))
        return out
