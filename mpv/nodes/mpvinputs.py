"""Verification-only input library (lives in /verif): leaf commands that hand a prepared array to the model.
Under analysis TABLE holds symbolic arrays; in the replay worker it holds real numpy arrays."""
from mpilot import params
from mpilot.commands import Command

TABLE = {}


class SymInput(Command):
    inputs = {"Name": params.StringParameter()}
    output = params.DataParameter()

    def execute(self, **kwargs):
        return TABLE[kwargs["Name"]]


class SymFuzzyInput(Command):
    is_fuzzy = True
    inputs = {"Name": params.StringParameter()}
    output = params.DataParameter()

    def execute(self, **kwargs):
        return TABLE[kwargs["Name"]]
