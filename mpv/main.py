"""Entry point:  python -m mpv.main <Cxx> [--tier quick|thorough] [--replay file] [--jobs N] [--only s]

exit 0: every obligation of every explored path discharged (known findings printed as KNOWN-FINDING)
exit 1: a counterexample reproduced on the real code and not listed in known_findings.json (VIOLATION line)
exit 2: inconclusive (solver unknown, path cap, shim/real disagreement, unreproduced counterexample, crash)
"""
import os
import sys
import json
import time
import queue
import shutil
import atexit
import hashlib
import argparse
import tempfile
import threading
import subprocess

HERE = os.path.dirname(os.path.dirname(os.path.abspath(__file__)))
REPO = os.environ.get('MPV_REPO', '/repo')


def make_scratch():
    base = tempfile.mkdtemp(prefix='mpv-')
    atexit.register(shutil.rmtree, base, True)
    ign = shutil.ignore_patterns('__pycache__', '*.pyc', '.git')
    for d in ('mpilot', 'tests', 'docs'):
        if os.path.isdir(os.path.join(REPO, d)):
            shutil.copytree(os.path.join(REPO, d), os.path.join(base, d), ignore=ign)
    return base


class Slot(object):
    """one worker subprocess"""

    def __init__(self, prop, scratch):
        self.prop, self.scratch = prop, scratch
        self.p = None

    def start(self):
        env = dict(os.environ, PYTHONPATH=HERE, PYTHONDONTWRITEBYTECODE='1', PYTHONHASHSEED='0')
        self.p = subprocess.Popen([sys.executable, '-m', 'mpv.jobworker', self.prop, self.scratch],
                                  stdin=subprocess.PIPE, stdout=subprocess.PIPE, stderr=self.errfile(),
                                  env=env, text=True, cwd=HERE)

    def errfile(self):
        return open(os.path.join(self.scratch, 'worker-stderr.log'), 'a')

    def ask(self, req, timeout):
        if self.p is None or self.p.poll() is not None:
            self.start()
        self.p.stdin.write(json.dumps(req) + '\n')
        self.p.stdin.flush()
        box = {}

        def rd():
            box['line'] = self.p.stdout.readline()
        t = threading.Thread(target=rd, daemon=True)
        t.start()
        t.join(timeout)
        if t.is_alive():
            self.p.kill()
            self.p.wait()
            self.p = None
            return {'ok': False, 'error': 'timeout after %ds' % timeout, 'timeout': True}
        if not box.get('line'):
            rc = self.p.poll()
            self.p = None
            return {'ok': False, 'error': 'worker died (rc=%s)' % rc}
        return json.loads(box['line'])

    def close(self):
        if self.p is not None and self.p.poll() is None:
            try:
                self.p.stdin.close()
                self.p.wait(timeout=3)
            except Exception:
                self.p.kill()


def run_jobs(prop, scratch, jobs, seed, nproc, default_timeout):
    q = queue.Queue()
    for i, j in enumerate(jobs):
        q.put((i, j))
    results = [None] * len(jobs)
    lock = threading.Lock()
    done = [0]

    def loop():
        slot = Slot(prop, scratch)
        while True:
            try:
                i, j = q.get_nowait()
            except queue.Empty:
                break
            r = slot.ask({'op': 'job', 'cfg': j, 'seed': seed}, j.get('timeout', default_timeout))
            results[i] = r
            with lock:
                done[0] += 1
                if os.environ.get('MPV_VERBOSE'):
                    sys.stderr.write('[%d/%d] %s -> %s\n' % (done[0], len(jobs), json.dumps(j, default=str)[:150],
                                                           ('ok %.1fs' % r.get('wall_s', 0)) if r.get('ok') else r.get('error')))
        slot.close()
    ts = [threading.Thread(target=loop) for _ in range(min(nproc, max(1, len(jobs))))]
    for t in ts:
        t.start()
    for t in ts:
        t.join()
    return results


def load_known():
    p = os.path.join(HERE, 'known_findings.json')
    if not os.path.exists(p):
        return {'findings': [], 'fixed': []}
    return json.load(open(p))


def main(argv=None):
    ap = argparse.ArgumentParser()
    ap.add_argument('prop')
    ap.add_argument('--tier', default=os.environ.get('VERIF_TIER') or 'quick')
    ap.add_argument('--replay')
    ap.add_argument('--jobs', type=int, default=int(os.environ.get('MPV_JOBS', '16')))
    ap.add_argument('--only', default=None, help='substring filter on job configs (debugging)')
    ap.add_argument('--job', default=None, help='run exactly this job configuration (JSON; debugging, never writes evidence)')
    ap.add_argument('--no-evidence', action='store_true')
    a = ap.parse_args(argv)
    prop = a.prop
    tier = a.tier if a.tier in ('quick', 'thorough') else 'quick'
    try:
        seed = int(os.environ.get('VERIF_SEED', '0') or 0)
    except ValueError:
        seed = 0
    t0 = time.time()
    scratch = make_scratch()
    ctl = Slot(prop, scratch)

    if a.replay:
        rec = json.load(open(a.replay))
        r = ctl.ask({'op': 'replay', 'record': rec}, 600)
        ctl.close()
        if not r.get('ok'):
            print('REPLAY-ERROR %s' % r.get('error'))
            print(r.get('trace', ''))
            return 2
        res = r['result']
        print(json.dumps(res, indent=1, default=str)[:6000])
        if res.get('reproduced'):
            print('VIOLATION property=%s replay=%s' % (prop, a.replay))
            return 1
        print('not reproduced on the current tree')
        return 0

    r = ctl.ask({'op': 'plan', 'tier': tier, 'seed': seed}, 600)
    if not r.get('ok'):
        print('INCONCLUSIVE property=%s planning failed: %s' % (prop, r.get('error')))
        sys.stderr.write(r.get('trace', '') + '\n')
        return 2
    jobs = r['jobs']
    if a.only:
        jobs = [j for j in jobs if a.only in json.dumps(j, default=str)]
    if a.job:
        jobs = [json.loads(a.job)]
        a.only = a.only or 'job'
    d = ctl.ask({'op': 'describe', 'tier': tier}, 120)
    describe = d.get('describe', {}) if d.get('ok') else {}
    ctl.close()
    default_timeout = int(os.environ.get('MPV_JOB_TIMEOUT') or describe.get('job_timeout', 900 if tier == 'quick' else 3600))
    results = run_jobs(prop, scratch, jobs, seed, a.jobs, default_timeout)
    if os.environ.get('MPV_DUMP'):
        json.dump({'jobs': jobs, 'results': results}, open(os.environ['MPV_DUMP'], 'w'), default=str)
    from . import report
    code = report.finish(prop, tier, seed, jobs, results, describe, load_known(), time.time() - t0, scratch,
                         write=not a.no_evidence and not a.only)
    return code


if __name__ == '__main__':
    sys.exit(main())
