"""Tolerant concrete evaluation of z3 terms (used when a counterexample is replayed: the obligation
template is evaluated on the values the REAL code produced, with a relative tolerance on real equalities
so that double rounding of a correct result is not mistaken for a violation)."""
from fractions import Fraction

import z3

TOL = Fraction(1, 10 ** 7)


class EvalError(Exception):
    pass


class NF(object):
    """a non-finite value observed on the real code ('nan', 'inf', '-inf'): IEEE comparison semantics"""

    def __init__(self, kind):
        self.kind = kind

    def _ord(self):
        return {'inf': 1, '-inf': -1}.get(self.kind)


def _cmp(a, b, op):
    """IEEE comparison when a non-finite value is involved; None when both are finite"""
    if not isinstance(a, NF) and not isinstance(b, NF):
        return None
    ka = a.kind if isinstance(a, NF) else None
    kb = b.kind if isinstance(b, NF) else None
    if ka == 'nan' or kb == 'nan':
        return op == 'ne'
    ra = a._ord() * 10 ** 400 if isinstance(a, NF) else a
    rb = b._ord() * 10 ** 400 if isinstance(b, NF) else b
    return {'eq': ra == rb, 'ne': ra != rb, 'lt': ra < rb, 'le': ra <= rb, 'gt': ra > rb, 'ge': ra >= rb}[op]


def _close(a, b):
    if isinstance(a, bool) or isinstance(b, bool):
        return bool(a) == bool(b)
    if isinstance(a, str) or isinstance(b, str):
        return a == b
    scale = max(1, abs(a), abs(b))
    return abs(a - b) <= TOL * scale


import re

_OBSERVED = re.compile(r'^(R\d+\.|A\d+\.)|\.r\.')


def geval(e, env, tolerant=True):
    """env: name -> Fraction | int | bool | str.  The tolerance applies only to comparisons that involve a value
    OBSERVED on the real code (placeholders R<j>.*, A<j>.*, <name>.r.*): comparisons among the exact inputs - which
    select the branch of the reference - are exact, whatever the magnitude of the data."""
    cache = {}
    depc = {}

    def dep(t):
        k = t.get_id()
        if k in depc:
            return depc[k][1]
        if z3.is_const(t) and t.decl().kind() == z3.Z3_OP_UNINTERPRETED:
            r = bool(_OBSERVED.search(t.decl().name()))
        else:
            r = any(dep(c) for c in t.children())
        depc[k] = (t, r)
        return r

    def ev(t):
        k = t.get_id()
        if k in cache:
            return cache[k]
        r = _ev(t)
        cache[k] = r
        return r

    def _ev(t):
        if z3.is_true(t):
            return True
        if z3.is_false(t):
            return False
        if z3.is_int_value(t):
            return Fraction(t.as_long())
        if z3.is_rational_value(t):
            return Fraction(t.numerator_as_long(), t.denominator_as_long())
        if z3.is_string_value(t):
            return t.as_string()
        if z3.is_const(t) and t.decl().kind() == z3.Z3_OP_UNINTERPRETED:
            n = t.decl().name()
            if n not in env:
                raise EvalError("unbound " + n)
            v = env[n]
            if isinstance(v, str) and v in ('nan', 'inf', '-inf') and z3.is_real(t):
                return NF(v)
            if isinstance(v, bool) or isinstance(v, str):
                return v
            if isinstance(v, float):
                return Fraction(v)
            return Fraction(v)
        k = t.decl().kind()
        ch = t.children()
        if k == z3.Z3_OP_AND:
            return all(ev(c) for c in ch)
        if k == z3.Z3_OP_OR:
            return any(ev(c) for c in ch)
        if k == z3.Z3_OP_NOT:
            return not ev(ch[0])
        if k == z3.Z3_OP_IMPLIES:
            return (not ev(ch[0])) or ev(ch[1])
        if k == z3.Z3_OP_XOR:
            return bool(ev(ch[0])) != bool(ev(ch[1]))
        if k == z3.Z3_OP_ITE:
            return ev(ch[1]) if ev(ch[0]) else ev(ch[2])
        if k in (z3.Z3_OP_EQ, z3.Z3_OP_IFF):
            a, b = ev(ch[0]), ev(ch[1])
            nf = _cmp(a, b, 'eq')
            if nf is not None:
                return nf
            return _close(a, b) if (tolerant and (dep(ch[0]) or dep(ch[1]))) else a == b
        if k == z3.Z3_OP_DISTINCT:
            vals = [ev(c) for c in ch]
            for i in range(len(vals)):
                for j in range(i + 1, len(vals)):
                    if (_close(vals[i], vals[j]) if (tolerant and (dep(ch[i]) or dep(ch[j]))) else vals[i] == vals[j]):
                        return False
            return True
        if k == z3.Z3_OP_LE:
            a, b = ev(ch[0]), ev(ch[1])
            nf = _cmp(a, b, 'le')
            if nf is not None:
                return nf
            return a <= b or (tolerant and (dep(ch[0]) or dep(ch[1])) and _close(a, b))
        if k == z3.Z3_OP_GE:
            a, b = ev(ch[0]), ev(ch[1])
            nf = _cmp(a, b, 'ge')
            if nf is not None:
                return nf
            return a >= b or (tolerant and (dep(ch[0]) or dep(ch[1])) and _close(a, b))
        if k == z3.Z3_OP_LT:
            a, b = ev(ch[0]), ev(ch[1])
            nf = _cmp(a, b, 'lt')
            if nf is not None:
                return nf
            return a < b and not (tolerant and (dep(ch[0]) or dep(ch[1])) and _close(a, b))
        if k == z3.Z3_OP_GT:
            a, b = ev(ch[0]), ev(ch[1])
            nf = _cmp(a, b, 'gt')
            if nf is not None:
                return nf
            return a > b and not (tolerant and (dep(ch[0]) or dep(ch[1])) and _close(a, b))
        if k in (z3.Z3_OP_ADD, z3.Z3_OP_SUB, z3.Z3_OP_MUL, z3.Z3_OP_DIV, z3.Z3_OP_UMINUS):
            vals = [ev(c) for c in ch]
            if any(isinstance(v, NF) for v in vals):
                return NF('nan')
        if k == z3.Z3_OP_ADD:
            return sum((ev(c) for c in ch), Fraction(0))
        if k == z3.Z3_OP_SUB:
            r = ev(ch[0])
            for c in ch[1:]:
                r -= ev(c)
            return r
        if k == z3.Z3_OP_UMINUS:
            return -ev(ch[0])
        if k == z3.Z3_OP_MUL:
            r = Fraction(1)
            for c in ch:
                r *= ev(c)
            return r
        if k in (z3.Z3_OP_DIV, z3.Z3_OP_IDIV):
            a, b = ev(ch[0]), ev(ch[1])
            if b == 0:
                raise EvalError("division by zero in ground evaluation")
            return a / b if k == z3.Z3_OP_DIV else Fraction(a // b)
        if k == z3.Z3_OP_TO_REAL:
            return ev(ch[0])
        if k == z3.Z3_OP_TO_INT:
            v = ev(ch[0])
            return Fraction(v.numerator // v.denominator)
        if k == z3.Z3_OP_IS_INT:
            return ev(ch[0]).denominator == 1
        raise EvalError("unsupported op %s" % t.decl().name())

    return ev(e)
