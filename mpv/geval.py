"""Tolerant concrete evaluation of z3 terms (used when a counterexample is replayed: the obligation
template is evaluated on the values the REAL code produced, with a relative tolerance on real equalities
so that double rounding of a correct result is not mistaken for a violation)."""
from fractions import Fraction

import z3

TOL = Fraction(1, 10 ** 7)


class EvalError(Exception):
    pass


def _close(a, b):
    if isinstance(a, bool) or isinstance(b, bool):
        return bool(a) == bool(b)
    if isinstance(a, str) or isinstance(b, str):
        return a == b
    scale = max(1, abs(a), abs(b))
    return abs(a - b) <= TOL * scale


def geval(e, env, tolerant=True):
    """env: name -> Fraction | int | bool | str"""
    cache = {}

    def ev(t):
        k = t.get_id()
        if k in cache:
            return cache[k]
        r = _ev(t)
        cache[k] = r
        return r

    def _ev(t):
        if z3.is_true(t):
            return True
        if z3.is_false(t):
            return False
        if z3.is_int_value(t):
            return Fraction(t.as_long())
        if z3.is_rational_value(t):
            return Fraction(t.numerator_as_long(), t.denominator_as_long())
        if z3.is_string_value(t):
            return t.as_string()
        if z3.is_const(t) and t.decl().kind() == z3.Z3_OP_UNINTERPRETED:
            n = t.decl().name()
            if n not in env:
                raise EvalError("unbound " + n)
            v = env[n]
            if isinstance(v, bool) or isinstance(v, str):
                return v
            if isinstance(v, float):
                return Fraction(v)
            return Fraction(v)
        k = t.decl().kind()
        ch = t.children()
        if k == z3.Z3_OP_AND:
            return all(ev(c) for c in ch)
        if k == z3.Z3_OP_OR:
            return any(ev(c) for c in ch)
        if k == z3.Z3_OP_NOT:
            return not ev(ch[0])
        if k == z3.Z3_OP_IMPLIES:
            return (not ev(ch[0])) or ev(ch[1])
        if k == z3.Z3_OP_XOR:
            return bool(ev(ch[0])) != bool(ev(ch[1]))
        if k == z3.Z3_OP_ITE:
            return ev(ch[1]) if ev(ch[0]) else ev(ch[2])
        if k in (z3.Z3_OP_EQ, z3.Z3_OP_IFF):
            a, b = ev(ch[0]), ev(ch[1])
            return _close(a, b) if tolerant else a == b
        if k == z3.Z3_OP_DISTINCT:
            vals = [ev(c) for c in ch]
            for i in range(len(vals)):
                for j in range(i + 1, len(vals)):
                    if (_close(vals[i], vals[j]) if tolerant else vals[i] == vals[j]):
                        return False
            return True
        if k == z3.Z3_OP_LE:
            a, b = ev(ch[0]), ev(ch[1])
            return a <= b or (tolerant and _close(a, b))
        if k == z3.Z3_OP_GE:
            a, b = ev(ch[0]), ev(ch[1])
            return a >= b or (tolerant and _close(a, b))
        if k == z3.Z3_OP_LT:
            a, b = ev(ch[0]), ev(ch[1])
            return a < b and not (tolerant and _close(a, b))
        if k == z3.Z3_OP_GT:
            a, b = ev(ch[0]), ev(ch[1])
            return a > b and not (tolerant and _close(a, b))
        if k == z3.Z3_OP_ADD:
            return sum((ev(c) for c in ch), Fraction(0))
        if k == z3.Z3_OP_SUB:
            r = ev(ch[0])
            for c in ch[1:]:
                r -= ev(c)
            return r
        if k == z3.Z3_OP_UMINUS:
            return -ev(ch[0])
        if k == z3.Z3_OP_MUL:
            r = Fraction(1)
            for c in ch:
                r *= ev(c)
            return r
        if k in (z3.Z3_OP_DIV, z3.Z3_OP_IDIV):
            a, b = ev(ch[0]), ev(ch[1])
            if b == 0:
                raise EvalError("division by zero in ground evaluation")
            return a / b if k == z3.Z3_OP_DIV else Fraction(a // b)
        if k == z3.Z3_OP_TO_REAL:
            return ev(ch[0])
        if k == z3.Z3_OP_TO_INT:
            v = ev(ch[0])
            return Fraction(v.numerator // v.denominator)
        if k == z3.Z3_OP_IS_INT:
            return ev(ch[0]).denominator == 1
        raise EvalError("unsupported op %s" % t.decl().name())

    return ev(e)
