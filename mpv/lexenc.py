"""E2 -- Python-regex -> z3 regex translation of the LIVE PLY lexer and first-match lemmas.

The token rules are read from the lexer object built by the scratch copy of mpilot/parser/parser.py
(lexer.lexstateretext / lexstatere / lexignore), parsed with re._parser and translated into z3 regular
expressions over a bounded alphabet.  PLY's dispatch is stated as: skip ignored characters; the first alternative
of the master regex that matches at the position wins; the token ends where that alternative's greedy match ends
(assumption A-lex: greedy = longest for these rules, checked on every witness against re.match)."""
import sys
import re
import re._parser as sp
import re._constants as sc

import z3

ALPHA = [chr(c) for c in range(32, 127)] + ['\t', '\r', '\n', 'é', '中']


def charset(pred):
    cs = sorted(c for c in ALPHA if pred(c))
    if not cs:
        return z3.Empty(z3.ReSort(z3.StringSort()))
    parts = []
    i = 0
    while i < len(cs):
        j = i
        while j + 1 < len(cs) and ord(cs[j + 1]) == ord(cs[j]) + 1:
            j += 1
        parts.append(z3.Range(cs[i], cs[j]) if j > i else z3.Re(cs[i]))
        i = j + 1
    return z3.Union(*parts) if len(parts) > 1 else parts[0]


ANY = charset(lambda c: True)
ANYS = z3.Star(ANY)


def _cat_pred(cat):
    if cat == sc.CATEGORY_DIGIT:
        return lambda c: c.isdigit()
    if cat == sc.CATEGORY_NOT_DIGIT:
        return lambda c: not c.isdigit()
    if cat == sc.CATEGORY_SPACE:
        return lambda c: c.isspace()
    if cat == sc.CATEGORY_NOT_SPACE:
        return lambda c: not c.isspace()
    if cat == sc.CATEGORY_WORD:
        return lambda c: c.isalnum() or c == '_'
    if cat == sc.CATEGORY_NOT_WORD:
        return lambda c: not (c.isalnum() or c == '_')
    raise NotImplementedError(cat)


def _in_pred(items):
    neg = False
    preds = []
    for op, av in items:
        if op == sc.NEGATE:
            neg = True
        elif op == sc.LITERAL:
            preds.append(lambda c, av=av: ord(c) == av)
        elif op == sc.RANGE:
            preds.append(lambda c, av=av: av[0] <= ord(c) <= av[1])
        elif op == sc.CATEGORY:
            preds.append(_cat_pred(av))
        else:
            raise NotImplementedError(op)
    return (lambda c: not any(p(c) for p in preds)) if neg else (lambda c: any(p(c) for p in preds))


def tr(seq):
    parts = []
    for op, av in seq:
        if op == sc.LITERAL:
            parts.append(z3.Re(chr(av)))
        elif op == sc.NOT_LITERAL:
            parts.append(charset(lambda c, av=av: ord(c) != av))
        elif op == sc.ANY:
            parts.append(charset(lambda c: c != '\n'))
        elif op == sc.IN:
            parts.append(charset(_in_pred(av)))
        elif op == sc.BRANCH:
            parts.append(z3.Union(*[tr(b) for b in av[1]]))
        elif op == sc.SUBPATTERN:
            parts.append(tr(av[3]))
        elif op in (sc.MAX_REPEAT, sc.MIN_REPEAT):
            lo, hi, body = av
            r = tr(body)
            if lo == 0 and hi == sc.MAXREPEAT:
                parts.append(z3.Star(r))
            elif lo == 1 and hi == sc.MAXREPEAT:
                parts.append(z3.Plus(r))
            elif lo == 0 and hi == 1:
                parts.append(z3.Option(r))
            elif hi == sc.MAXREPEAT:
                parts.append(z3.Concat(z3.Loop(r, lo, lo), z3.Star(r)))
            else:
                parts.append(z3.Loop(r, lo, hi))
        else:
            raise NotImplementedError("regex construct %s is not translated" % (op,))
    if not parts:
        return z3.Re("")
    return z3.Concat(*parts) if len(parts) > 1 else parts[0]


def rx(pattern):
    """z3 regex of a Python regex text (lexeme classes of the reference renderer are written this way)"""
    return tr(sp.parse(pattern).data)


class Live(object):
    """the token rules of the live lexer"""

    def __init__(self):
        pp = sys.modules.get('mpilot.parser.parser')
        if pp is None:
            import mpilot.parser.parser as pp
        self.pp = pp
        self.lexobj = pp.Lexer()
        lx = self.lexobj.lexer
        self.lx = lx
        self.ignore = lx.lexignore
        self.rules = []         # (rule name, z3 regex, token type or None, python regex text)
        texts = lx.lexstateretext['INITIAL']
        funcs = lx.lexstatere['INITIAL']
        for text, (cre, findex) in zip(texts, funcs):
            parsed = sp.parse(text)
            names = {v: k for k, v in parsed.state.groupdict.items()}
            data = parsed.data
            if len(data) == 1 and data[0][0] == sc.BRANCH:
                branches = data[0][1][1]
            else:
                branches = [data]
            for b in branches:
                (op, (gid, _, _, body)), = b
                name = names[gid]
                f = findex[gid]
                toktype = f[1] if f else None
                has_func = bool(f and f[0])
                self.rules.append((name, tr(body), toktype, has_func))
        self.R = {n: r for n, r, _, _ in self.rules}
        self.order = [n for n, _, _, _ in self.rules]
        self.toktype = {n: t for n, _, t, _ in self.rules}
        self.ignored = charset(lambda c: c in self.ignore)

    def first_match(self, rule, w, rest):
        """constraint: at text w+rest the dispatch yields `rule` with lexeme exactly w (w non-empty)"""
        s = z3.Concat(w, rest)
        cons = [z3.Length(w) > 0]
        for n in self.order:
            if n == rule:
                break
            cons.append(z3.Not(z3.InRe(s, z3.Concat(self.R[n], ANYS))))
        cons.append(z3.InRe(w, self.R[rule]))
        return z3.And(*cons)

    def longer(self, rule, w, rest, tag=''):
        """the rule also matches a strictly longer prefix of w+rest"""
        e, t = z3.String('ext' + tag), z3.String('tail' + tag)
        return z3.And(rest == z3.Concat(e, t), z3.Length(e) > 0, z3.InRe(z3.Concat(w, e), self.R[rule]))

    def no_rule_matches(self, s):
        return z3.And(*[z3.Not(z3.InRe(s, z3.Concat(self.R[n], ANYS))) for n in self.order])

    def scan(self, text, lineno=1):
        """tokens the real lexer produces: [(type, value, lineno, lexpos)]"""
        lx = self.pp.Lexer().lexer
        lx.lineno = lineno
        lx.input(text)
        out = []
        while True:
            t = lx.token()
            if t is None:
                break
            out.append((t.type, t.value, t.lineno, t.lexpos))
        return out, lx.lineno

    def greedy_end(self, rule, text):
        """where Python's re ends the match of `rule` at position 0 of text (A-lex validation)"""
        for texts in self.lx.lexstateretext['INITIAL']:
            m = re.compile(texts).match(text)
            if m and m.lastgroup == rule:
                return m.end()
        return None


def solve(cons, timeout=60000):
    s = z3.Solver()
    s.set('timeout', timeout)
    s.add(*cons)
    r = s.check()
    return ('unsat' if r == z3.unsat else ('sat' if r == z3.sat else 'unknown')), (s.model() if r == z3.sat else None)
