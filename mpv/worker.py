"""Concrete replay worker: runs the real mpilot data commands from the scratch copy with the REAL numpy.
JSON lines on stdin/stdout.  Request: {"runs": [runspec, ...]}; every runspec is executed in order and an
input may refer to the real result of an earlier run of the same request ({"t": "ref", "run": j})."""
import sys
import json
import warnings
import importlib

warnings.simplefilter('ignore')
import numpy  # noqa: E402
from mpilot.commands import Command  # noqa: E402
from mpilot.arguments import Argument  # noqa: E402
from mpilot.exceptions import MPilotError  # noqa: E402


def mk_arr(s):
    dt = {'f': float, 'i': int, 'b': bool, 'u': numpy.uint64}[s['kind']]
    d = numpy.array(s['data'], dtype=dt).reshape(s['shape'])
    fort = s.get('layout') == 'F' and d.ndim >= 2
    if fort:
        d = numpy.asfortranarray(d)         # column-major storage (a transposed raster, a Fortran-ordered file)
    if s['rep'] == 'nd':
        return d
    if s['rep'] == 'nomask':
        return numpy.ma.array(d)
    m = numpy.array(s['mask'], dtype=bool).reshape(s['shape'])
    if fort:
        m = numpy.asfortranarray(m)
    return numpy.ma.array(d, mask=m)


HOLDERS = []


def mk_cmd(name, s, results):
    if s['t'] == 'same':
        c = HOLDERS[s['holder']]
        HOLDERS.append(c)
        return c
    c = Command(name)
    HOLDERS.append(c)
    if s.get('fuzzy'):
        c.is_fuzzy = True
    c.is_finished = True
    if s['t'] == 'ref':
        c._result = results[s['run']]
    else:
        c._result = mk_arr(s)
    return c


def build(name, s, results):
    t = s['t']
    if t in ('arr', 'ref', 'same'):
        return mk_cmd(name, s, results)
    if t == 'arrlist':
        return [mk_cmd('%s%d' % (name, i), x, results) for i, x in enumerate(s['items'])]
    return s['v']


def dump(a):
    if isinstance(a, numpy.ma.MaskedArray):
        m = numpy.ma.getmaskarray(a)
        return {'type': 'ma', 'shape': list(a.shape), 'kind': a.dtype.kind,
                'data': [_num(x) for x in numpy.asarray(a.data).ravel()],
                'mask': [bool(x) for x in m.ravel()], 'nomask': a.mask is numpy.ma.nomask}
    if isinstance(a, numpy.ndarray):
        return {'type': 'nd', 'shape': list(a.shape), 'kind': a.dtype.kind,
                'data': [_num(x) for x in a.ravel()], 'mask': None}
    return {'type': type(a).__name__, 'repr': repr(a)[:200]}


def _num(x):
    x = float(x)
    if x != x:
        return 'nan'
    if x in (float('inf'), float('-inf')):
        return 'inf' if x > 0 else '-inf'
    return x


def run_one(req, results):
    mod = importlib.import_module(req['module'])
    cls = getattr(mod, req['cls'])
    del HOLDERS[:]
    kwargs = {k: build(k, v, results) for k, v in req['kwargs'].items()}
    holders = list(HOLDERS)
    r = None
    try:
        with numpy.errstate(all='ignore'):
            if req.get('via') == 'run':
                c = cls('r', [Argument(k, v) for k, v in kwargs.items()], lineno=1)
                c.run()
                r = c._result
            else:
                r = cls('r').execute(**kwargs)
        out = {'ok': True, 'res': dump(r), 'alias': [r is h._result for h in holders]}
    except Exception as e:
        try:
            msg = str(e)[:300]
        except Exception as e2:     # an error class whose __str__ itself fails (reported by C13, not here)
            msg = '<str() failed: %s>' % type(e2).__name__
        out = {'ok': False, 'exc': type(e).__name__, 'mpilot': isinstance(e, MPilotError), 'msg': msg}
        inner = getattr(e, 'exc', None)
        if inner is not None and isinstance(inner, Exception):
            out['inner'] = type(inner).__name__
    out['inputs_after'] = [dump(h._result) for h in holders]
    results.append(r)
    return out


def make_netcdf(spec):
    """write a one-variable NetCDF file: {"path", "data", "mask" or None, "kind": f|i}"""
    from netCDF4 import Dataset
    n = len(spec['data'])
    with Dataset(spec['path'], 'w') as ds:
        ds.createDimension('x', n)
        x = ds.createVariable('x', 'f8', ('x',))
        x[:] = numpy.arange(n)
        v = ds.createVariable('v', 'f8' if spec['kind'] == 'f' else 'i8', ('x',), fill_value=(1e20 if spec['kind'] == 'f' else 999999))
        arr = numpy.ma.array(spec['data'], dtype=float if spec['kind'] == 'f' else int, mask=spec['mask'] if spec['mask'] is not None else False)
        v[:] = arr


def netcdf_roundtrip(req):
    """write results with the real EEMSWrite (real netCDF4) and read them back with the real EEMSRead"""
    import os
    from netCDF4 import Dataset
    from mpilot.program import Program
    rec = req['netcdf_roundtrip']
    shape = tuple(rec['shape'])
    rank = len(shape)
    base = os.path.join(req['scratch'], 'c18rt-%d' % os.getpid())
    tmpl, out = base + '-t.nc', base + '-o.nc'
    dims = ['time', 'y', 'x'][-rank:]
    rng = numpy.random.RandomState(7)
    with Dataset(tmpl, 'w') as ds:
        for dname, size in zip(dims, shape):
            ds.createDimension(dname, size)
            if rec.get('coords') == 'packed':
                # a packed coordinate (CF scale_factor / add_offset on a 16-bit integer variable)
                dv = ds.createVariable(dname, 'i2', (dname,))
                dv.scale_factor = 0.5
                dv.add_offset = 10.0
                dv[:] = 10 + 0.5 * numpy.arange(size)
            else:
                dv = ds.createVariable(dname, 'f8', (dname,))
                dv[:] = numpy.linspace(10, 20, size)
            dv.units = 'u_' + dname
        tv = ds.createVariable('template', 'f4', tuple(dims))
        tv[:] = numpy.zeros(shape)
    import mpvinputs
    mpvinputs.TABLE.clear()
    names = ['R%d' % i for i in range(rec['nres'])]
    n = int(numpy.prod(shape))
    for i, nm in enumerate(names):
        vals = (rng.rand(n) * 20 - 10) if rec['dkind'] == 'f' else rng.randint(-50, 50, n)
        mask = numpy.zeros(n, dtype=bool)
        if rec['maskpat'] in (1, 3) and i == 0:
            mask[0] = True
        if rec['maskpat'] in (2, 3, 5) and i == len(names) - 1:
            mask[-1] = True
        if rec['maskpat'] == 4 and 0 < i < len(names) - 1:
            mask[n // 2] = True
        if rec['maskpat'] in (0, 5) and i == 0:
            a = numpy.ma.array(vals.reshape(shape), dtype=float if rec['dkind'] == 'f' else int)       # no mask array at all
        else:
            a = numpy.ma.array(vals.reshape(shape), mask=mask.reshape(shape), dtype=float if rec['dkind'] == 'f' else int)
        a.soften_mask()
        mpvinputs.TABLE[nm] = a
    before = {nm: (numpy.ma.getdata(a).copy(), numpy.ma.getmaskarray(a).copy()) for nm, a in mpvinputs.TABLE.items()}
    libs = ('mpilot.libraries.eems.basic', 'mpilot.libraries.eems.netcdf', 'mpilot.libraries.eems.fuzzy', 'mpvinputs')
    src = ''.join('%s = SymInput(Name = "%s")\n' % (nm, nm) for nm in names)
    src += 'W = EEMSWrite(OutFileName = "%s", OutFieldNames = [%s], DimensionFileName = "%s", DimensionFieldName = template)\n' % (out, ', '.join(names), tmpl)
    facts = []
    try:
        p = Program.from_source(src, libraries=libs)
        p.run()
    except Exception as e:
        return {'facts': [('write: the real EEMSWrite runs (%s: %s)' % (type(e).__name__, str(e)[:160]), False)]}
    for nm in names:
        d0, m0 = before[nm]
        a = mpvinputs.TABLE[nm]
        same = bool((numpy.ma.getmaskarray(a) == m0).all()) and bool((numpy.ma.getdata(a)[~m0] == d0[~m0]).all())
        facts.append(('inputs: writing leaves the written result %s as it was (missing cells and non-missing values)' % nm, same))
    union = numpy.zeros(shape, dtype=bool)
    for nm in names:
        union |= before[nm][1]
    with Dataset(out) as ds, Dataset(tmpl) as ts:
        for dname in dims:
            ok = dname in ds.variables and numpy.array_equal(ds[dname][:], ts[dname][:]) and getattr(ds[dname], 'units', None) == 'u_' + dname \
                and ds[dname].dtype == ts[dname].dtype and getattr(ds[dname], 'scale_factor', None) == getattr(ts[dname], 'scale_factor', None)
            facts.append(('dimensions: variable %s and its coordinate values/attributes are copied unchanged' % dname, bool(ok)))
    for nm in names:
        rsrc = 'B = EEMSRead(InFileName = "%s", InFieldName = %s, DataType = "%s")\n' % (out, nm, 'Float' if rec['dkind'] == 'f' else 'Integer')
        try:
            q = Program.from_source(rsrc, libraries=libs)
            q.run()
            b = q.commands['B']._result
        except Exception as e:
            facts.append(('read-back: %s can be read back (%s: %s)' % (nm, type(e).__name__, str(e)[:120]), False))
            continue
        a = numpy.ma.array(before[nm][0], mask=before[nm][1])
        facts.append(('read-back: %s has the written shape %s (got %s)' % (nm, list(shape), list(b.shape)), tuple(b.shape) == shape))
        facts.append(('read-back: %s has the written element kind' % nm, b.dtype.kind in ('f',) if rec['dkind'] == 'f' else b.dtype.kind in ('i', 'u')))
        if tuple(b.shape) == shape:
            bm = numpy.ma.getmaskarray(b)
            facts.append(('read-back: %s is missing exactly where any written result was missing' % nm, bool((bm == union).all())))
            facts.append(('read-back: %s has the written values at non-missing cells' % nm, bool(numpy.ma.allclose(numpy.ma.array(a.data, mask=union), numpy.ma.array(b.data, mask=union)))))
    return {'facts': facts}


def run_program(req):
    """{"program": source, "inputs": {name: arrspec}, "libraries": [...]} -> per-command result dumps"""
    import mpvinputs
    if req.get('netcdf'):
        make_netcdf(req['netcdf'])
    from mpilot.program import Program
    mpvinputs.TABLE.clear()
    for name, spec in req['inputs'].items():
        mpvinputs.TABLE[name] = mk_arr(spec)
    try:
        with numpy.errstate(all='ignore'):
            p = Program.from_source(req['program'], libraries=tuple(req['libraries']))
            p.run()
        return {'ok': True, 'results': {name: dump(c._result) for name, c in p.commands.items()},
                'inputs_after': {name: dump(a) for name, a in mpvinputs.TABLE.items()}}
    except Exception as e:
        try:
            msg = str(e)[:300]
        except Exception:
            msg = '<str failed>'
        return {'ok': False, 'exc': type(e).__name__, 'mpilot': isinstance(e, MPilotError), 'msg': msg,
                'inner': type(getattr(e, 'exc', None)).__name__ if getattr(e, 'exc', None) is not None else None}


def main():
    for line in sys.stdin:
        req = json.loads(line)
        if 'netcdf_roundtrip' in req:
            try:
                out = netcdf_roundtrip(req)
            except Exception as e:
                out = {'facts': [('the round trip harness ran (%s: %s)' % (type(e).__name__, str(e)[:200]), False)]}
            sys.stdout.write(json.dumps(out) + '\n')
            sys.stdout.flush()
            continue
        if 'program' in req:
            try:
                out = run_program(req)
            except Exception as e:
                out = {'ok': False, 'exc': 'WORKER:' + type(e).__name__, 'mpilot': False, 'msg': str(e)[:300]}
            sys.stdout.write(json.dumps(out) + '\n')
            sys.stdout.flush()
            continue
        results = []
        outs = []
        for r in req['runs']:
            try:
                outs.append(run_one(r, results))
            except Exception as e:      # harness-level failure: report, never die silently
                results.append(None)
                outs.append({'ok': False, 'exc': 'WORKER:' + type(e).__name__, 'mpilot': False, 'msg': str(e)[:300], 'inputs_after': []})
        sys.stdout.write(json.dumps({'runs': outs}) + '\n')
        sys.stdout.flush()


if __name__ == '__main__':
    main()
