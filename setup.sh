#!/bin/bash
# Builds the overlay virtualenv the checks run in: /venv's Python 3.12 (which has the
# repository's own dependencies) plus z3-solver / cvc5 / crosshair-tool from the offline
# wheelhouse.  Idempotent; uses files on disk only.
set -e
cd "$(dirname "$0")"
V=.venv
if [ ! -x $V/bin/python ] || ! $V/bin/python -c "import z3, numpy, ply, crosshair" >/dev/null 2>&1; then
  rm -rf $V
  /venv/bin/python -m venv $V
  SP=$($V/bin/python -c "import sysconfig; print(sysconfig.get_paths()['purelib'])")
  echo "import site; site.addsitedir('/venv/lib/python3.12/site-packages')" > "$SP/_overlay.pth"
  PIP_NO_INDEX=1 $V/bin/python -m pip install -q --no-index --find-links /opt/veriftools/wheels \
      z3-solver cvc5 crosshair-tool >/dev/null
  $V/bin/python -c "import z3, numpy, ply, crosshair; assert numpy.__version__.startswith('1.26'), numpy.__version__"
fi
echo "setup ok: $($V/bin/python -c 'import z3; print("z3", z3.get_version_string())')"
