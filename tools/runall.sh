#!/bin/bash
# runs the quick command of every registered check and prints one summary line each
cd "$(dirname "$0")/.."
for p in $(python3 -c "import json;print(' '.join(c['property_id'] for c in json.load(open('MANIFEST.json'))['checks']))"); do
  out=$(./check $p ${TIER:+--tier $TIER} "$@" 2>&1); rc=$?
  echo "$p rc=$rc :: $(echo "$out" | tail -1 | cut -c1-200)"
  [ $rc -ne 0 ] && echo "$out" | grep -E "^(VIOLATION|INCONCLUSIVE|KNOWN)" | head -5
done
