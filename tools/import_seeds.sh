#!/bin/bash
# usage: tools/import_seeds.sh <Cxxb> <base_commit>   (copies /tmp/seed/<Cxxb>/_seed/{1,2,3} into seeded/, removes the worktree)
T=$1; BASEC=$2; ROUND=${3:-2}; P=${T%[b-z]}
for n in 1 2 3; do
  S=/tmp/seed/$T/_seed/$n; D=/verif/seeded/$T-$n
  [ -d $S ] || { echo "missing $S"; continue; }
  mkdir -p $D; cp $S/patch.diff $S/demo.py $D/; [ -f $S/../common.py ] && cp $S/../common.py $D/
  python3 - "$S/meta.json" "$D/meta.json" "$P" "$BASEC" "$ROUND" <<'PY'
import json,sys
src,dst,p,base,rnd=sys.argv[1:]
try: m=json.load(open(src))
except Exception as e: m={"summary":open(src).read()}
m["property"]=p; m["base_commit"]=base; m["round"]=int(rnd)
m["origin"]="written by an independent sub-agent that saw only the property text and a scratch worktree (later round, asked for two-site, unusual-input, numeric-representation or memory-sharing changes)"
json.dump(m,open(dst,"w"),indent=1)
PY
done
git -C /repo worktree remove --force /tmp/seed/$T && echo "removed worktree $T"
