#!/usr/bin/env python3
"""Regenerates /verif/MANIFEST.json from the table below (single source of truth for the interface)."""
import json, os
HERE = os.path.dirname(os.path.dirname(os.path.abspath(__file__)))

ENGINE = 'mpv (symx symbolic executor + symnp numpy stand-in over z3)'
CHECKS = {
    'C04': dict(
        technique='symbolic execution of the real execute() bodies on z3-term arrays; per-cell range obligation discharged by z3 (unsat) for all values within the bound',
        text='Bounded symbolic model checking of the real fuzzy-producing commands: every feasible path of each execute() within the '
             'stated array/arity bounds is explored with unconstrained symbolic inputs and parameters, and "missing or -1<=v<=1" is proved per cell by z3; '
             'every path model is also executed on the real numpy to validate the numpy stand-in.',
        note='Trusted: z3, the symnp stand-in for numpy.ma (validated per explored path against real numpy 1.26), floats modelled as reals; '
             'the jobs marked rounding add an unconstrained error of up to 2^-40 to every array operation (an over-approximation of rounding for moderate magnitudes) - '
             'their counterexamples are reported only when real doubles reproduce them; bounds in evidence.',
        ref='DESIGN.md §2 C04, §A.2'),
}
CHECKS['C03'] = dict(
    technique='symbolic execution of every data command on z3-term masked arrays; mask = union-of-input-masks obligation and payload non-interference by self-composition, decided by z3',
    text='Bounded symbolic model checking of all data commands of basic.py/fuzzy.py: per cell "missing <=> missing in an input or operation undefined" and '
         '"result is a masked array" are proved on every feasible path, and non-interference of the values hidden under missing cells is proved by running the command twice '
         'in one path on inputs that differ only in their hidden payloads (relational query).',
    note='Trusted: z3, symnp (validated per path against real numpy), reals for floats. Mask creation by the CSV/NetCDF readers is covered by C17/C18.',
    ref='DESIGN.md §2 C03')
CHECKS['C06'] = dict(
    technique='symbolic execution of the real fuzzy operators vs independently phrased reference terms; equality and algebraic laws as z3 validity queries with case-splitting on if-then-else conditions',
    text='Bounded symbolic model checking: each operator result is proved equal, cell by cell, to the EEMS definition (max/min/neg/mean/weighted mean/mean of k extreme/XOr formula, clamped) '
         'for every k, NumberToConsider and symbolic weight vector within the bound; input-order invariance (adjacent transpositions), Not involution, De Morgan, And<=Union<=Or and the '
         'SelectedUnion k=1/k=all coincidences are proved as relational queries over several real command executions in one path.',
    note='Trusted: z3 (nonlinear real arithmetic for XOr), symnp validated per path, reference terms in mpv/oracle.py; exact real arithmetic, not IEEE rounding.',
    ref='DESIGN.md §2 C06')
CHECKS['C07'] = dict(
    technique='symbolic execution of the real arithmetic commands over every int64/float64 type vector; value/mask/type obligations and order-invariance as z3 validity queries',
    text='Bounded symbolic model checking of Sum, WeightedSum, Multiply, AMinusB, ADividedByB, Minimum, Maximum, Mean, WeightedMean, Copy: for every element-type vector in {int,float}^k '
         'and symbolic values/weights the result is proved equal to the arithmetic definition (division by zero => missing), commutative commands are run in both orders of every adjacent '
         'transposition in one path and must succeed or fail alike with equal results, and shape / weight-count / empty-list faults must raise their specific errors.',
    note='Trusted: z3, symnp incl. numpy same-kind casting rule (validated per path against real numpy), reals/integers for float64/int64.',
    ref='DESIGN.md §2 C07')
CHECKS['C08'] = dict(
    technique='symbolic execution of the real conversion/normalisation commands vs reference mappings (control points in symbolic order; sqrt as defined value), decided by z3 with ite case-splitting',
    text='Bounded symbolic model checking of the 14 conversion/normalisation commands present in the libraries: value == documented mapping per cell (thresholds explicit or defaulted by direction, '
         'category lookup, piecewise-linear curve with control points in any order, z-score and mean-to-mid statistics over non-missing cells), CvtFromFuzzy(CvtToFuzzy(x)) == x between the '
         'thresholds, each CvtToFuzzy variant == clamp(Normalize counterpart on [-1,1]) run side by side, and order preservation of monotone mappings.',
    note='Trusted: z3 NRA, symnp validated per path, mpv/oracle.py; NormalizeZScore default thresholds not asserted (docs and code disagree); exact reals.',
    ref='DESIGN.md §2 C08')
CHECKS['C05'] = dict(
    technique='symbolic execution of every data command on rank 1-3 shapes; shape facts per path and sigma-equivariance (transpositions, reshapes) as relational z3 queries over two executions',
    text='Bounded symbolic model checking: for every data command the result shape equals the input shape on shapes of rank 1-3 incl. length-1 axes, and running the command on all inputs '
         'rearranged by the same adjacent transposition of cells, or reshaped vector<->grid, is proved to rearrange the result identically (masks and non-missing values), '
         'which makes data-dependent statistics (min/max/mean/std, mean-to-mid points) part of the solver query.',
    note='Trusted: z3, symnp index bookkeeping delegated to real numpy on buffer positions (validated per path); permutations via adjacent transpositions + composition argument.',
    ref='DESIGN.md §2 C05')
CHECKS['C09'] = dict(
    technique='one inductive step over an arbitrary symbolic producer state: real Command.run of each consumer on shared-buffer symbolic arrays; before/after equality of the producers decided by z3',
    text='Bounded symbolic model checking of one consumer step from an arbitrary producer state (masked / nomask / plain arrays with symbolic cells and masks): after the real Command.run of any '
         'data command (1-3 inputs, single-input n-ary forms, same producer twice) the producers keep type, shape, element type, mask and non-missing values. Buffer sharing in the numpy stand-in '
         'makes views, reduce() returning its only element and in-place operators visible; sequences of consumers follow by induction.',
    note='Trusted: z3, symnp aliasing model (views share cell buffers; validated per path incl. post-state of the inputs on real numpy); A-pre fuzzy range.',
    ref='DESIGN.md §2 C09')
CHECKS['C01'] = dict(
    technique='solver-enumerated labelled DAGs x reference kinds (z3 rank constraints), each executed on the real Program.run with an execution-counting harness library; post-run access histories forked symbolically',
    text='Bounded model checking of the real scheduler: z3 chooses, for every ordered pair of N commands, whether and how (direct, list, nested list) one references the other under an acyclicity constraint; '
         'the explorer follows exactly the satisfiable assignments, builds each program through add_command / from_source and runs the real Program.run, then a solver-chosen history of further run()/result accesses. '
         'Every command must execute exactly once, receive the finished results of its dependencies (structural result compared with a reference graph evaluation) and nothing may execute afterwards; the memo step is also checked from an arbitrary is_finished state. Further histories: a solver-chosen command fails inside execute() in the first run() and the Program is run again after the cause is removed; a command is replaced; command objects of an earlier Program (with or without a namesake) are passed directly as arguments.',
    note='Trusted: z3 (structure enumeration), the harness library mpv/nodes/mpvnodes.py; values are concrete structural tuples, so every path is itself a real execution.',
    ref='DESIGN.md §3 C01')
CHECKS['C14'] = dict(
    technique='solver-enumerated digraphs containing a cycle (transitive-closure constraint in z3) x reference kinds, each run on the real Program.run; outcome must be RecursiveModelStructure',
    text='Bounded model checking: z3 enumerates every directed reference graph with at least one cycle (self-loops, 2-cycles, longer cycles, with tails or separate acyclic components) within the bound, through direct, list and nested-list '
         'references and both construction paths; each is executed by the real Program.run with a lowered recursion limit and must be rejected with the recursive-model error - never return normally with unexecuted commands, never exhaust the stack.',
    note='Trusted: z3 (structure enumeration under the cycle constraint), harness library; every path is a real execution.',
    ref='DESIGN.md §3 C14')
CHECKS['C02'] = dict(
    technique='symbolic execution of whole models through the real from_source+run on symbolic input arrays; per-command result == reference evaluation of the graph (z3), every path replayed through the real pipeline with real numpy',
    text='Bounded symbolic model checking of composition: typed producer->consumer pairs (all built-in data commands covered; all pairs in the thorough tier), both file orders (forward references), Metadata in any argument position, '
         'shared intermediates and sampled depth-3 chains/diamonds are parsed and run by the real Program on symbolic masked input arrays; every command result is proved equal (mask and non-missing values) to the reference semantics applied bottom-up along the dependency graph.',
    note='Trusted: z3, symnp (validated per path against real numpy through the same model text), mpv/oracle.py; parameters are concrete literals here (C06-C08 vary them); deeper shapes are sampled with VERIF_SEED and labelled so.',
    ref='DESIGN.md §2 C02')
CHECKS['C19'] = dict(
    technique='one inductive step of the real Program.__init__ and CommandMeta.__new__ over an arbitrary registry pre-state with z3-string module/command/library names; membership and duplicate obligations decided by the sequence theory',
    text='Bounded symbolic model checking: the process-global registry is an arbitrary list of entries with symbolic names (whatever any earlier history could have left there), library loading is stubbed, '
         'and the real constructor runs with symbolic library names; the served command set must be exactly the entries whose module is a requested library or a dotted sub-module, construction must fail iff two served entries share a name, '
         'and one real metaclass registration step keeps earlier entries and adds the new class iff no entry has its (module, name).',
    note='Trusted: z3 strings; S-load stub (import machinery outside); counterexamples replayed with concrete strings on the real constructor.',
    ref='DESIGN.md §3 C19')
CHECKS['C20'] = dict(
    technique='symbolic execution of every params.*.clean on symbolic ints/floats/strings (z3 Int/Real/String; int()/float() as documented literal grammars) and structured raw values; type, repeatability, idempotence and purity obligations decided by z3',
    text='Bounded symbolic model checking of the real clean() methods: 17 parameter configurations x 20 raw-value kinds (symbolic numbers, symbolic strings incl. integer-/decimal-/boolean-text and absolute/relative paths, lists, nested lists, dicts, None, command objects, result names, types), with and without a working directory. '
         'Obligations: returns a value of the documented type or raises the parameter error (no other exception), clean(v) twice equal, clean(clean(v)) unchanged, raw argument and program unaltered; violations replayed with concrete values.',
    note='Trusted: z3 (strings, regex membership); S-float/int and S-os stubs (listed in evidence); numeric value of int(text) is an uninterpreted function of the text.',
    ref='DESIGN.md §3 C20')
CHECKS['C12'] = dict(
    technique='solver-enumerated single-fault matrix (z3 integer choices for fault kind, parameter, injected value kind, file position) over every built-in command, executed on the real loader/validator with an execute() recorder; verdict compared with a reference well-formedness predicate computed from the live declarations',
    text='Bounded model checking of acceptance: for every command of the CSV library set and every single fault (unknown command, duplicate result, each required parameter missing, undeclared parameter, each parameter x 13 injected value kinds, references to missing / wrong-kind / wrong-fuzziness results) at the first or last file position of a 7-command host model, '
         'the real Program either reaches its first execute() (accepted) or raises the documented error class with an empty execution recorder and no output file (rejected before any side effect); accepted iff the reference predicate says well-formed.',
    note='Trusted: z3 (fault enumeration), reference predicate (DESIGN.md Appendix D); values inside a kind come from small representative sets (value-level cleaning is C20).',
    ref='DESIGN.md §3 C12')
CHECKS['C11'] = dict(
    technique='symbolic execution of the real t_newline / Parser.parse / loader with a symbolic line counter, symbolic line-break strings and distinct symbolic node line numbers; z3 decides lineno == true line; live-regex lemma for line-break runs',
    text='Bounded symbolic model checking: (1) the real newline rule on a symbolic run over {CR,LF} with a symbolic counter must add exactly the number of line breaks, and the live master regex matches a maximal run as one token (z3 regex lemma); '
         '(2) programs rendered with solver-chosen layouts (blank/comment lines, trailing comments, arguments and lists spread over lines, LF/CRLF/CR) are parsed by a Parser whose line counter is an arbitrary symbolic integer and whose EEMS-2 flag is arbitrary (any parse history in one step): every command, argument and list element must carry its true line; '
         '(3) the loader is fed a parse tree whose 30+ line numbers are distinct symbolic integers, one of 9 faults is injected, and the raised error must carry the line term of the offending command/argument.',
    note='Trusted: z3; A-lex (greedy = longest, checked on witnesses); S-parser stub for the error-line part; CLI marker arithmetic is checked in C13.',
    ref='DESIGN.md §4 C11')
CHECKS['C13'] = dict(
    technique='z3 regex lemmas on the live lexer find the lexemes whose token action can fail (witnesses replayed on the real parser); solver-enumerated fault, CSV-content and error-class matrices executed on the real loader, CSV reader and CLI handler with a symbolic line number',
    text='(a) For 9 classes of risky lexemes (malformed escapes, trailing backslash, non-ASCII, huge integers) z3 decides through the first-match lemma on the live master regex which strings really are single tokens, and the real parser must answer each witness with a tree or SyntaxError; characters no rule matches likewise. '
         '(b) The complete C12 fault matrix (every command x parameter x value kind) must never let a non-MPilot exception escape. (c) CSV files (0-2 rows x header forms x ragged/blank/3-cell rows x 7 cell forms x read options) run through the real model pipeline. '
         '(d) Every MPilot error class is built with representative fields and a symbolic line number and pushed through the real CLI handler: str() must not raise, exit status non-zero, message on stderr, the marked line is the error line (z3).',
    note='Trusted: z3; S-repr contract (which escapes CPython rejects) only steers where witnesses are sought; everything is executed on the real code.',
    ref='DESIGN.md §3 C13')
CHECKS['C16'] = dict(
    technique='table queries against the live libraries; symbolic execution of the real convert_eems2_commands on nodes with z3-string names (lookup by symbolic key forks over the table keys); structural comparison of v2 and v3 renderings through the real from_source',
    text='(a) every row of the live EEMS_COMMANDS table must name a command that exists in both library sets; (b) the real node rewriting runs on a node whose result name (or absence), command name, argument names, values and line numbers are symbolic: z3 proves the result-name rule (given name, else NewFieldName, else InFieldName), '
         'renaming per table else unchanged, and that exactly NewFieldName/OutFileName are dropped with order and lines kept; (c) for every mapped name the EEMS 2.0 rendering (with/without NewFieldName/OutFileName, pure or mixed with MPilot-style commands) and its MPilot translation are loaded by the real from_source and compared structurally; (d) version detection across parse sequences.',
    note='Trusted: z3 strings; EEMS_COMMANDS wrapped for symbolic keys; results of the two programs are equal because the programs are structurally identical (evaluation itself is C02). Known findings: SCORERANGEBENEFIT/COST have no MPilot counterpart (known_findings.json).',
    ref='DESIGN.md §4 C16')
CHECKS['C15'] = dict(
    technique='z3 regex lemmas on the live lexer (safe-class strings and repr(float) texts are single tokens) + solver-produced witnesses of every class outside the safe language, round-tripped through the real to_string/from_source',
    text='Two solver-backed layers: (1) validity lemmas on the live master regex: every safe-class string written between double quotes is exactly one STRING token and every text of repr(float)\'s language is exactly one FLOAT token (unsat within the length bound); '
         '(2) for 15 classes of strings outside the safe language (quotes, backslashes, escape-like sequences, non-ASCII, line breaks, delimiters, comment sign, number/boolean look-alikes ...) z3 produces witnesses that are put into programs through the API, through source text, inside lists and as metadata values, '
         'serialised by the real to_string(), re-loaded by the real from_source() and compared argument by argument (cleaned values) and by execution result; likewise repr(float) witnesses and extreme numbers, 9 structure families (references by object, nested lists, metadata order, fixed point) and an EEMS model run before/after.',
    note='Trusted: z3 regex; S-repr contract; the serialiser itself runs on concrete witnesses (C-level str.format cannot be executed symbolically) - stated as a bound in the evidence.',
    ref='DESIGN.md §4 C15')
CHECKS['C10'] = dict(
    technique='z3 regular-expression lemmas over the live PLY master regex (one lemma per lexeme class) + symbolic execution of the real LRParser and grammar actions on token streams with z3-valued tokens, against the generating abstract program and a reference recogniser',
    text='L1: for 20 lexeme classes (identifiers, integers, decimals incl. exponent forms, quoted strings with the standard escapes, comments, line breaks, punctuation, one-token unquoted text) z3 proves on the live master regex that the lexeme followed by any delimiter is exactly one match of the expected rule (every lemma model is replayed on the real lexer, and the decoded token value is an obligation decided on up to 4 distinct solver-chosen members of each class, including non-ASCII characters next to escape sequences), and unquoted text of the user-guide class (inner blanks, digit-leading, boolean words) must come back as written on solver-produced witnesses. '
         'L3: solver-chosen abstract programs (commands, EEMS-2 commands, arguments, 10 value kinds, nested lists, tuples, trailing commas) are rendered to token streams whose values and line numbers are z3 terms; the real LRParser + actions must return a tree term-equal to the abstract program; every sampled single-token deletion/duplication/substitution must be accepted iff a reference recogniser accepts and otherwise raise SyntaxError. LC: 128 concrete layouts of one program through the real Parser.',
    note='Trusted: z3 regex/strings; A-lex (greedy = longest, checked on each lemma model); stub lexer in L3 justified by L1; reference grammar in DESIGN.md Appendix D (ambiguous bracketed colon text not asserted).',
    ref='DESIGN.md §4 C10')
CHECKS['C17'] = dict(
    technique='symbolic execution of the real csv/io.py read and write bodies on the symbolic numpy under open/csv stubs (symbolic table: row emptiness, numeric cells, MissingVal); z3 decides value/mask/row-order obligations; every path model replayed through the real csv module on a real file',
    text='Partial claim (logic of csv/io.py; text<->double conversion is C code outside the solver): the real EEMSRead.execute runs on a symbolic table and must return the requested column in row order with blank rows skipped, the requested element type (integer cast = truncation), exactly the cells equal to the symbolic MissingVal masked, unaffected by other columns; '
         'missing header / empty file / non-numeric cells must raise the documented error naming the physical file line; the real EEMSWrite.execute must emit the header of result names in the listed order and one row per cell with the cell values. Bit-exact float text round trip is only exercised concretely on 11 extreme doubles (supplementary).',
    note='Trusted: z3, symnp, S-open/csv stubs (validated per path against the real csv module and numpy); known finding: masked cells are written as "--" (known_findings.json).',
    ref='DESIGN.md §5 C17')
CHECKS['C18'] = dict(
    technique='symbolic execution of the real netcdf/io.py EEMSRead (through Command.run) on the symbolic numpy with netCDF4 stubbed by arbitrary symbolic masked variables; read-option obligations decided by z3; every path model replayed on a real NetCDF file; write/read-back exercised concretely with the real library',
    text='Partial claim. Solver-decided: for DataType in {omitted, Float, Integer, Positive Float, Positive Integer, Fuzzy} x float/int variables x symbolic MissingValue, the result has the documented element type (float by default), values as stored (rounded half-to-even for integer types, clamped for Fuzzy), '
         'is missing exactly where the file is missing or the value equals MissingValue, negative data are rejected exactly for the Positive types and out-of-range data exactly for Fuzzy, a missing variable is NoSuchVariable. '
         'Exercised, not proved: grids of rank 1-3 (incl. length-1 axes), float/int, 1-2 results, 4 missing-cell placements are written by the real EEMSWrite and read back through the real netCDF4/HDF5 library: shape, element kind, values, union mask and copied dimension variables are compared.',
    note='Trusted: z3, symnp, S-nc stub (validated per path against real netCDF4 files); the netCDF4/HDF5 C library is outside the solver (stated in evidence).',
    ref='DESIGN.md §5 C18')
NOT_YET = {}
ALL = ['C%02d' % i for i in range(1, 21)]

def main():
    na_reasons = json.load(open(os.path.join(HERE, 'tools', 'not_applicable.json')))
    checks = []
    for pid in ALL:
        if pid not in CHECKS:
            continue
        c = CHECKS[pid]
        checks.append({
            'property_id': pid,
            'quick_cmd': './check %s --tier quick' % pid,
            'thorough_cmd': './check %s --tier thorough' % pid,
            'evidence_file': 'evidence/%s.json' % pid,
            'replay_cmd_template': './check %s --replay {path}' % pid,
            'engine': ENGINE,
            'level_claimed': {'category': c.get('category', 'model_checking'), 'text': c['text'], 'design_ref': c['ref']},
            'level_note': c['note'],
            'technique': c['technique'],
        })
    man = {
        'version': 1,
        'setup_cmd': './setup.sh',
        'hooks': {'guard': 'MPILOT_VERIF', 'enable': 'no source hooks are needed: the checks import a scratch copy of /repo and substitute numpy / builtins from outside',
                  'baseline_off_cmd': 'cd /repo && /venv/bin/python -m pytest -ra -q -p no:cacheprovider --timeout=900 --continue-on-collection-errors',
                  'source_commits': [], 'add_only': True},
        'engines': [{'name': 'mpv', 'path': 'mpv/', 'serves_properties': sorted(CHECKS), 'kind_free_text':
                     'symbolic execution of the real Python code on z3-backed proxies (numbers, strings, numpy.ma arrays) with solver-pruned path forking; obligations discharged by z3, counterexamples replayed on the real code'}],
        'checks': checks,
        'not_applicable': [{'property_id': p, 'reason': na_reasons.get(p, 'check not built yet')} for p in ALL if p not in CHECKS],
        'notes': 'exit 0 = all obligations discharged within the stated bounds; exit 1 = reproduced counterexample (VIOLATION line); exit 2 = inconclusive (never counted as pass). Known findings: known_findings.json.',
    }
    json.dump(man, open(os.path.join(HERE, 'MANIFEST.json'), 'w'), indent=1)
    print('wrote MANIFEST.json with %d checks, %d not_applicable' % (len(checks), len(man['not_applicable'])))

if __name__ == '__main__':
    main()
