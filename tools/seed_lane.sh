#!/bin/bash
# usage: tools/seed_lane.sh <Cxxc> <base_commit> <round>   import the three seeds of one sub-agent, try each against its property's check
# in a private scratch worktree (/tmp/mut_<Cxxc>), write /tmp/lane_<Cxxc>-<n>.log, remove the worktree.
T=$1; BASEC=$2; ROUND=$3; P=${T%[b-z]}
cd /verif && tools/import_seeds.sh $T $BASEC $ROUND
for n in 1 2 3; do
  [ -d seeded/$T-$n ] || continue
  MUT=/tmp/mut_$T BASE=$BASEC tools/try_seed.sh seeded/$T-$n $P > /tmp/lane_$T-$n.log 2>&1
done
git -C /repo worktree remove --force /tmp/mut_$T
grep -H "" /tmp/lane_$T-*.log
