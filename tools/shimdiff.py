#!/usr/bin/env python3
"""Differential self-test of the numpy stand-in (mpv.symnp + symnp_ext) against the real numpy on CONCRETE
random inputs (cells are z3 numerals, so no path forks).  Not a registered check: a development aid that
shakes out infidelities of the shim; the registered checks validate the shim per explored path anyway.
usage: /verif/.venv/bin/python tools/shimdiff.py [trials] [seed]"""
import os
import sys
import random
import warnings
from fractions import Fraction

sys.path.insert(0, os.path.dirname(os.path.dirname(os.path.abspath(__file__))))
warnings.simplefilter('ignore')
import numpy as rnp
sys.modules['_realnumpy'] = rnp
import z3
from mpv import symx, symnp
from mpv import symnp_ext
symnp_ext.apply()
snp = symnp
snp.ma = symnp.ma


class NS(object):
    pass


def real_ns():
    return rnp


def mk(kind, rep, vals, mask, shape):
    """-> (real array, shim array)"""
    dt = float if kind == 'f' else (int if kind == 'i' else rnp.uint64)
    d = rnp.array(vals, dtype=dt).reshape(shape)
    cells = [z3.RealVal(str(Fraction(v))) for v in vals]
    sd = symnp.ndarray._new(cells, tuple(shape), kind)
    if rep == 'nd':
        return d, sd
    if rep == 'nomask':
        return rnp.ma.array(d), symnp.MaskedArray(sd, None)
    m = rnp.array(mask, dtype=bool).reshape(shape)
    return rnp.ma.array(d, mask=m), symnp.MaskedArray(sd, symnp.ndarray._new([z3.BoolVal(bool(b)) for b in mask], tuple(shape), 'b'))


def dump_real(x):
    if x is rnp.ma.masked:
        return ('masked',)
    if isinstance(x, rnp.ma.MaskedArray):
        m = rnp.ma.getmaskarray(x)
        return ('ma', x.shape, x.dtype.kind, [float(v) for v in rnp.asarray(x.data).ravel()], [bool(b) for b in m.ravel()])
    if isinstance(x, rnp.ndarray):
        return ('nd', x.shape, x.dtype.kind, [float(v) for v in x.ravel()], None)
    if x is rnp.ma.masked:
        return ('masked',)
    if isinstance(x, (bool, rnp.bool_)):
        return ('bool', bool(x))
    if isinstance(x, (int, float, rnp.number)):
        return ('num', float(x))
    if isinstance(x, tuple):
        return ('tuple', tuple(dump_real(v) for v in x))
    return ('other', repr(x))


MODEL = [None]


def val(t):
    if MODEL[0] is not None:
        t = MODEL[0].eval(t, model_completion=True)
    t = z3.simplify(t)
    if z3.is_true(t):
        return 1.0
    if z3.is_false(t):
        return 0.0
    if z3.is_rational_value(t):
        return float(Fraction(t.numerator_as_long(), t.denominator_as_long()))
    if z3.is_algebraic_value(t):
        a = t.approx(15)
        return float(Fraction(a.numerator_as_long(), a.denominator_as_long()))
    raise ValueError('non-concrete cell %s' % t)


def dump_shim(x):
    if isinstance(x, symnp.MaskedArray):
        return ('ma', tuple(x.shape), x.kind, [val(c) for c in x.data.cells()], [bool(val(m)) for m in x.maskcells()])
    if isinstance(x, symnp.ndarray):
        return ('nd', tuple(x.shape), x.kind, [val(c) for c in x.cells()], None)
    if x is symnp.masked:
        return ('masked',)
    if x is symnp.NOMASK:
        return ('bool', False)
    if isinstance(x, symx.SymBool):
        return ('bool', bool(val(x.e)))
    if isinstance(x, bool):
        return ('bool', x)
    if isinstance(x, symx.SymNum):
        return ('num', val(x.e))
    if isinstance(x, (int, float)):
        return ('num', float(x))
    if isinstance(x, rnp.ndarray):
        return dump_real(x)
    if isinstance(x, tuple):
        return ('tuple', tuple(dump_shim(v) for v in x))
    return ('other', repr(x))


def same(a, b):
    if a[0] != b[0]:
        return False
    if a[0] in ('ma', 'nd'):
        if tuple(a[1]) != tuple(b[1]) or a[2] != b[2]:
            return False
        if a[4] != b[4]:
            return False
        for i, (x, y) in enumerate(zip(a[3], b[3])):
            if a[4] is not None and a[4][i]:
                continue
            if abs(x - y) > 1e-9 * max(1, abs(x), abs(y)):
                return False
        return True
    if a[0] == 'num':
        return abs(a[1] - b[1]) <= 1e-9 * max(1, abs(a[1]))
    if a[0] == 'tuple':
        return len(a[1]) == len(b[1]) and all(same(x, y) for x, y in zip(a[1], b[1]))
    return a == b


CASES = {
    'add': lambda np, a, b: a + b, 'sub': lambda np, a, b: a - b, 'mul': lambda np, a, b: a * b,
    'div': lambda np, a, b: np.ma.asarray(a) / b, 'neg': lambda np, a, b: -a, 'abs': lambda np, a, b: abs(a),
    'np.abs': lambda np, a, b: np.abs(a), 'pow2': lambda np, a, b: a ** 2, 'square': lambda np, a, b: np.square(a),
    'lt': lambda np, a, b: a < b, 'le': lambda np, a, b: a <= b, 'eq': lambda np, a, b: a == b, 'ne': lambda np, a, b: a != b,
    'ma.where': lambda np, a, b: np.ma.where(a < b, a, b), 'np.where3': lambda np, a, b: np.where(np.ma.filled(a < b, False), np.ma.getdata(a), np.ma.getdata(b)),
    'ma.minimum': lambda np, a, b: np.ma.minimum(a, b), 'ma.maximum': lambda np, a, b: np.ma.maximum(a, b),
    'sum': lambda np, a, b: a.sum(), 'np.sum': lambda np, a, b: np.sum(a), 'mean': lambda np, a, b: a.mean(), 'ma.mean': lambda np, a, b: np.ma.mean(a),
    'min': lambda np, a, b: a.min(), 'max': lambda np, a, b: a.max(), 'std': lambda np, a, b: np.ma.std(a), 'var': lambda np, a, b: np.ma.asarray(a).var(),
    'count': lambda np, a, b: np.ma.count(a), 'filled': lambda np, a, b: np.ma.filled(a, 7), 'getdata': lambda np, a, b: np.ma.getdata(a),
    'getmaskarray': lambda np, a, b: np.ma.getmaskarray(a), 'mask_or': lambda np, a, b: np.ma.mask_or(np.ma.getmaskarray(a), np.ma.getmaskarray(b)),
    'masked_where': lambda np, a, b: np.ma.masked_where(a > b, a), 'masked_where_nocopy': lambda np, a, b: np.ma.masked_where(np.ma.getdata(b) > 0, a, copy=False),
    'masked_equal': lambda np, a, b: np.ma.masked_equal(a, 1), 'masked_less': lambda np, a, b: np.ma.masked_less(a, 0),
    'masked_invalid': lambda np, a, b: np.ma.masked_invalid(a), 'clip': lambda np, a, b: np.clip(a, -1, 1), 'a.clip': lambda np, a, b: a.clip(-1, 1),
    'copy': lambda np, a, b: a.copy(), 'np.copy': lambda np, a, b: np.copy(a), 'astype_f': lambda np, a, b: a.astype(float), 'astype_i': lambda np, a, b: a.astype(int),
    'ma.array': lambda np, a, b: np.ma.array(a), 'ma.array_copy': lambda np, a, b: np.ma.array(a, copy=True), 'ma.array_mask': lambda np, a, b: np.ma.array(np.ma.getdata(a), mask=np.ma.getmaskarray(b)),
    'ma.asarray_f': lambda np, a, b: np.ma.asarray(a, dtype=float), 'np.asarray': lambda np, a, b: np.asarray(a), 'np.array': lambda np, a, b: np.array(a),
    'stack': lambda np, a, b: np.stack([np.ma.getdata(a), np.ma.getdata(b)]), 'vstack': lambda np, a, b: np.vstack([np.ma.getdata(a), np.ma.getdata(b)]),
    'ma.stack': lambda np, a, b: np.ma.stack([a, b]), 'ma.vstack': lambda np, a, b: np.ma.vstack([a, b]), 'concatenate': lambda np, a, b: np.concatenate([np.ma.getdata(a), np.ma.getdata(b)]),
    'ma.concatenate': lambda np, a, b: np.ma.concatenate([a, b]),
    'ma.array_list': lambda np, a, b: np.ma.array([a, b]),
    'sum_axis0': lambda np, a, b: np.ma.stack([a, b]).sum(axis=0), 'mean_axis0': lambda np, a, b: np.ma.mean(np.ma.stack([a, b]), axis=0),
    'sort_ma': lambda np, a, b: _sorted(np, np.ma.stack([a, b])), 'sort_nd': lambda np, a, b: np.sort(np.stack([np.ma.getdata(a), np.ma.getdata(b)]), axis=0),
    'iadd': lambda np, a, b: _inplace(a, b, 'add'), 'isub': lambda np, a, b: _inplace(a, b, 'sub'), 'imul': lambda np, a, b: _inplace(a, b, 'mul'),
    'idiv': lambda np, a, b: _inplace(np.ma.asarray(a, dtype=float), b, 'div'),
    'setitem_bool_scalar': lambda np, a, b: _set(np, a, a > 0, 5), 'setitem_masked': lambda np, a, b: _set(np, np.ma.array(a, copy=True), np.ma.getmaskarray(b), np.ma.masked),
    'setitem_arr': lambda np, a, b: _set(np, np.ma.array(a, copy=True), np.ma.filled(b < a, False), b[np.ma.filled(b < a, False)]),
    'getitem_bool': lambda np, a, b: a[a > 0], 'getitem_slice': lambda np, a, b: a[1:], 'getitem_int': lambda np, a, b: np.ma.getdata(a).ravel()[0],
    'compressed': lambda np, a, b: np.ma.asarray(a).compressed(), 'ravel': lambda np, a, b: a.ravel(), 'reshape': lambda np, a, b: a.reshape((-1, 1)), 'T': lambda np, a, b: a.T,
    'logical_or': lambda np, a, b: np.logical_or(np.ma.getmaskarray(a), np.ma.getmaskarray(b)), 'any': lambda np, a, b: np.ma.getmaskarray(a).any(),
    'is_masked': lambda np, a, b: np.ma.is_masked(a), 'isnan': lambda np, a, b: np.isnan(np.ma.getdata(a)), 'isfinite': lambda np, a, b: np.isfinite(np.ma.getdata(a)),
    'sqrt_abs': lambda np, a, b: np.sqrt(np.abs(np.ma.getdata(a))), 'ma.sqrt': lambda np, a, b: np.ma.sqrt(np.ma.asarray(a, dtype=float)),
    'norm': lambda np, a, b: np.linalg.norm(a), 'rint': lambda np, a, b: np.rint(np.ma.getdata(a) / 2.0 if np.ma.getdata(a).dtype.kind == 'f' else np.ma.getdata(a).astype(float) / 2.0),
    'floor': lambda np, a, b: np.floor(np.ma.getdata(a).astype(float) / 2.0), 'zeros_like': lambda np, a, b: np.zeros_like(np.ma.getdata(a)), 'full': lambda np, a, b: np.full(a.shape, 2.5),
    'ma.zeros': lambda np, a, b: np.ma.zeros(a.shape), 'broadcast': lambda np, a, b: np.broadcast_to(np.ma.getmaskarray(a), [2] + list(a.shape)),
    'mask_setter': lambda np, a, b: _setmask(np, np.ma.array(a, copy=True), np.ma.getmaskarray(b)), 'scalar_mul': lambda np, a, b: a * 2.5, 'scalar_rdiv': lambda np, a, b: 2.0 / np.ma.asarray(a),
    'true_divide_ma': lambda np, a, b: np.true_divide(np.ma.asarray(a), np.ma.asarray(b)), 'sum_builtin': lambda np, a, b: sum([a, b]),
    'np.maximum': lambda np, a, b: np.maximum(a, b), 'np.minimum': lambda np, a, b: np.minimum(a, b),
    'np.maximum_out': lambda np, a, b: _out(np, np.maximum, a, b), 'np.minimum_out': lambda np, a, b: _out(np, np.minimum, a, b),
    'np.add_out': lambda np, a, b: _out(np, np.add, a, b), 'np.multiply_out': lambda np, a, b: _out(np, np.multiply, a, b),
    'ma.min_axis0': lambda np, a, b: np.ma.min(np.ma.vstack([a, b]), axis=0), 'ma.max_axis0': lambda np, a, b: np.ma.max(np.ma.stack([a, b]), axis=0),
    'maskany_axis0': lambda np, a, b: np.ma.getmaskarray(np.ma.stack([a, b])).any(axis=0), 'nd.min_axis0': lambda np, a, b: np.stack([np.ma.getdata(a), np.ma.getdata(b)]).min(axis=0),
    'masked_values': lambda np, a, b: np.ma.masked_values(a, 1, copy=False, shrink=False), 'masked_values_near': lambda np, a, b: np.ma.masked_values(np.ma.asarray(a) * 1.000001, 1.0),
    'scalar_sub': lambda np, a, b: np.ma.getdata(a).min() - np.ma.getdata(a).max(), 'arr_minus_min': lambda np, a, b: np.ma.getdata(a) - np.ma.getdata(a).min(),
    'scalar_minus_py': lambda np, a, b: np.ma.getdata(a).max() - 1, 'scalar_times_neg': lambda np, a, b: np.ma.getdata(a).max() * -1, 'scalar_mixed': lambda np, a, b: np.ma.getdata(a).max() - np.ma.getdata(b).max(),
    'arr_minus_scalar_b': lambda np, a, b: np.ma.getdata(a) - np.ma.getdata(b).max(), 'normalize': lambda np, a, b: (np.ma.getdata(a) - np.ma.getdata(a).min()) * (0 - 1) / (np.ma.getdata(a).min() - np.ma.getdata(a).max() - 1) + 0,
    'ma.average_axis0': lambda np, a, b: np.ma.average(np.ma.stack([a, b]), axis=0, weights=[2, 0.5]), 'ma.average_all': lambda np, a, b: np.ma.average(a, weights=np.ma.getdata(b) * 0 + 1.5),
    'mask_ior': lambda np, a, b: _maskior(np, a, b),
    'ma.divide': lambda np, a, b: np.ma.divide(a, b), 'ma.divide_scalar': lambda np, a, b: np.ma.divide(a, 0), 'ma.divide_data': lambda np, a, b: np.ma.divide(np.ma.getdata(a), np.ma.getdata(b)),
    'can_cast': lambda np, a, b: bool(np.can_cast(a.dtype, b.dtype, 'safe')),
    'count_nonzero': lambda np, a, b: np.count_nonzero(np.ma.getdata(a)), 'power3': lambda np, a, b: np.power(np.ma.getdata(a), 3),
}


def _out(np, f, a, b):
    r = a.copy()
    x = f(r, b, out=r)
    return (x, r)


def _maskior(np, a, b):
    a = np.ma.array(a, copy=True)
    m = np.ma.asarray(a).mask
    m |= np.ma.asarray(b).mask
    return (m, a)


def _sorted(np, x):
    x.sort(axis=0)
    return x


def _inplace(a, b, op):
    a = a.copy()
    if op == 'add':
        a += b
    elif op == 'sub':
        a -= b
    elif op == 'mul':
        a *= b
    else:
        a /= b
    return a


def _set(np, a, key, v):
    a = a.copy()
    a[key] = v
    return a


def _setmask(np, a, m):
    a.mask = m
    return a


# ------------------------------------------------------------------ aliasing: who sees a later in-place change?
PRODUCERS = {
    'neg': lambda np, a, b: -a, 'abs': lambda np, a, b: abs(a), 'np.negative': lambda np, a, b: np.negative(a),
    'add_scalar': lambda np, a, b: a + 1, 'mul_ab': lambda np, a, b: a * b, 'sub_ab': lambda np, a, b: a - b,
    'copy': lambda np, a, b: a.copy(), 'ma.array': lambda np, a, b: np.ma.array(a), 'ma.array_copy': lambda np, a, b: np.ma.array(a, copy=True),
    'ma.asarray': lambda np, a, b: np.ma.asarray(a), 'ma.asarray_f': lambda np, a, b: np.ma.asarray(a, dtype=float),
    'ma.array_f': lambda np, a, b: np.ma.array(a, dtype=float),
    'slice': lambda np, a, b: a[:], 'reshape': lambda np, a, b: a.reshape(a.shape), 'ravel': lambda np, a, b: a.ravel(),
    'astype_f': lambda np, a, b: a.astype(float), 'ma.maximum': lambda np, a, b: np.ma.maximum(a, b), 'clip': lambda np, a, b: np.clip(a, -1, 1),
    'masked_where': lambda np, a, b: np.ma.masked_where(np.ma.getdata(a) > 1, a), 'masked_where_nocopy': lambda np, a, b: np.ma.masked_where(np.ma.getdata(a) > 1, a, copy=False),
    'getmaskarray': lambda np, a, b: np.ma.getmaskarray(a), 'getmask': lambda np, a, b: np.ma.getmask(a), 'mask_prop': lambda np, a, b: np.ma.asarray(a).mask,
    'getdata': lambda np, a, b: np.ma.getdata(a), 'data_prop': lambda np, a, b: np.ma.asarray(a).data, 'filled': lambda np, a, b: np.ma.filled(a, 0),
    'array_data_mask': lambda np, a, b: np.ma.array(np.ma.getdata(a), mask=np.ma.getmaskarray(a)),
    'array_data_maskcopy': lambda np, a, b: np.ma.array(np.ma.getdata(a), mask=np.ma.getmaskarray(a).copy()),
    'masked_array': lambda np, a, b: np.ma.masked_array(a), 'squeeze': lambda np, a, b: np.ma.squeeze(a),
    'mask_or': lambda np, a, b: np.ma.mask_or(np.ma.getmask(a), np.ma.getmask(b)),
    'logical_or': lambda np, a, b: np.logical_or(np.ma.getmaskarray(a), np.ma.getmaskarray(b)),
    'np.asarray': lambda np, a, b: np.asarray(a), 'np.array': lambda np, a, b: np.array(a), 'np.array_nocopy': lambda np, a, b: np.array(a, copy=False),
    'identity': lambda np, a, b: a,
}


def _mut_setmasked(np, r, a, b): r[0] = np.ma.masked
def _mut_setval(np, r, a, b): r[0] = 9
def _mut_setbool(np, r, a, b): r[np.ma.getdata(b) > 0] = 7
def _mut_maskassign(np, r, a, b): r.mask = np.ma.getmaskarray(b)
def _mut_iadd(np, r, a, b):
    r += b
def _mut_imul_s(np, r, a, b):
    r *= 2
def _mut_ior(np, r, a, b):
    r |= np.ma.getmaskarray(b)
def _mut_maskarr_set(np, r, a, b): np.ma.getmaskarray(r)[0] = True
def _mut_data_set(np, r, a, b): np.ma.getdata(r)[0] = 11
def _mut_clampset(np, r, a, b): r[r > 1] = 1
def _mut_sort(np, r, a, b): r.sort()


MUTATIONS = {'set_masked': _mut_setmasked, 'set_value': _mut_setval, 'set_bool': _mut_setbool, 'mask_assign': _mut_maskassign,
             'iadd': _mut_iadd, 'imul_scalar': _mut_imul_s, 'ior': _mut_ior, 'maskarray_set': _mut_maskarr_set,
             'data_set': _mut_data_set, 'clamp_set': _mut_clampset}


def alias_main(trials, rng, only):
    bad = {}
    n = 0
    for t in range(trials):
        shape = rng.choice([(3,), (2,), (2, 2)])
        size = 1
        for s_ in shape:
            size *= s_
        arrs = []
        for _ in range(2):
            kind = rng.choice('ffi')
            rep = rng.choice(['ma', 'ma', 'ma', 'nomask', 'nd'])
            vals = [rng.choice([-2, -1, 0, 1, 2, 3]) if kind == 'i' else rng.choice([-2.0, -1.0, -0.5, 0.0, 0.25, 1.0, 1.5, 3.0]) for _ in range(size)]
            mask = [rng.random() < 0.4 for _ in range(size)]
            arrs.append((kind, rep, vals, mask))
        for pn, pf in PRODUCERS.items():
            for mn, mf in MUTATIONS.items():
                name = pn + '/' + mn
                if only and only not in name:
                    continue
                ra, sa = mk(*arrs[0], shape)
                rb, sb = mk(*arrs[1], shape)

                def go(np_, a, b, dump):
                    r = pf(np_, a, b)
                    d0 = dump(r)
                    isb = d0[0] in ('nd', 'ma') and d0[2] == 'b'
                    if d0[0] not in ('nd', 'ma') or (isb and mn != 'ior') or (not isb and mn == 'ior') \
                            or (d0[0] == 'nd' and mn in ('set_masked', 'mask_assign', 'maskarray_set')):
                        return ('n/a',)
                    try:
                        mf(np_, r, a, b)
                        st = 'ok'
                    except (symx.Outside, symx.Inconclusive):
                        raise
                    except Exception as e:
                        st = type(e).__name__
                        if 'UFunc' in st:
                            st = 'UFuncTypeError'
                    return (st, dump(r), dump(a), dump(b))
                try:
                    with rnp.errstate(all='ignore'):
                        r = go(rnp, ra, rb, dump_real)
                except Exception as e:
                    r = ('producer-exc', type(e).__name__)
                symx.CTX = symx.Ctx([], [])
                MODEL[0] = None
                try:
                    s = go(snp, sa, sb, dump_shim)
                except (symx.Outside, symx.Inconclusive) as e:
                    s = None
                except Exception as e:
                    s = ('producer-exc', type(e).__name__, str(e)[:80])
                finally:
                    symx.CTX = None
                n += 1
                if s is None or r[0] != 'ok':
                    continue        # only histories the real numpy accepts are compared
                if r[0] == 'producer-exc' or s[0] == 'producer-exc':
                    ok = r[0] == s[0]
                else:
                    ok = r[0] == s[0] and all(same(x, y) for x, y in zip(r[1:], s[1:]))
                if not ok:
                    bad.setdefault(name, []).append((arrs, shape, r, s))
    print('%d alias evaluations, %d cases with mismatches' % (n, len(bad)))
    for name, lst in sorted(bad.items()):
        arrs, shape, r, s = lst[0]
        print('--- %s (%d mismatches)\n   inputs %s shape %s\n   real %s\n   shim %s' % (name, len(lst), arrs, shape, r, s))
    return 1 if bad else 0


KINDS = os.environ.get('SHIMDIFF_KINDS', 'ffi')


def main():
    if len(sys.argv) > 1 and sys.argv[1] == 'alias':
        return alias_main(int(sys.argv[2]) if len(sys.argv) > 2 else 40, random.Random(int(sys.argv[3]) if len(sys.argv) > 3 else 1),
                          sys.argv[4] if len(sys.argv) > 4 else None)
    trials = int(sys.argv[1]) if len(sys.argv) > 1 else 300
    rng = random.Random(int(sys.argv[2]) if len(sys.argv) > 2 else 1)
    only = sys.argv[3] if len(sys.argv) > 3 else None
    bad = {}
    n = 0
    for t in range(trials):
        shape = rng.choice([(3,), (2,), (2, 2), (1, 2)])
        size = 1
        for s in shape:
            size *= s
        arrs = []
        for _ in range(2):
            kind = rng.choice(KINDS)
            rep = rng.choice(['ma', 'ma', 'nomask', 'nd'])
            vals = [rng.choice([-2, -1, 0, 1, 2, 3]) if kind == 'i' else (rng.choice([0, 1, 2, 3, 5]) if kind == 'u' else rng.choice([-2.0, -1.0, -0.5, 0.0, 0.25, 1.0, 1.5, 3.0])) for _ in range(size)]
            mask = [rng.random() < 0.3 for _ in range(size)]
            arrs.append((kind, rep, vals, mask))
        for name, fn in CASES.items():
            if only and only != name:
                continue
            ra, sa = mk(*arrs[0], shape)
            rb, sb = mk(*arrs[1], shape)
            try:
                with rnp.errstate(all='ignore'):
                    r = ('ok', dump_real(fn(rnp, ra, rb)))
            except Exception as e:
                r = ('exc', type(e).__name__)
            symx.CTX = symx.Ctx([], [])
            MODEL[0] = None
            try:
                out = fn(snp, sa, sb)
                if symx.CTX.side:
                    sol = z3.Solver()
                    sol.add(*symx.CTX.side)
                    sol.check()
                    MODEL[0] = sol.model()
                s = ('ok', dump_shim(out))
            except (symx.Outside, symx.Inconclusive) as e:
                s = ('skip', str(e))
            except Exception as e:
                s = ('exc', type(e).__name__, str(e)[:100])
            finally:
                symx.CTX = None
            n += 1
            if s[0] == 'skip':
                continue
            if r[0] == 'ok' and any(isinstance(v, float) and (v != v or abs(v) == float('inf')) for v in (r[1][3] if r[1][0] in ('ma', 'nd') else [])
                                    if True):
                # non-finite real result at an unmasked cell: outside the model
                msk = r[1][4]
                if any((v != v or abs(v) == float('inf')) and not (msk and msk[i]) for i, v in enumerate(r[1][3])):
                    continue
            ok = (r[0] == s[0] == 'ok' and same(r[1], s[1])) or (r[0] == 'exc' and s[0] == 'exc' and (r[1] == s[1] or (s[1] == 'UFuncTypeError' and 'UFunc' in r[1])))
            if not ok:
                bad.setdefault(name, []).append((arrs, shape, r, s))
    print('%d evaluations, %d cases with mismatches' % (n, len(bad)))
    for name, lst in sorted(bad.items()):
        arrs, shape, r, s = lst[0]
        print('--- %s (%d mismatches)\n   inputs %s shape %s\n   real %s\n   shim %s' % (name, len(lst), arrs, shape, r, s))
    return 1 if bad else 0


if __name__ == '__main__':
    sys.exit(main())
