#!/bin/bash
# usage: tools/try_seed.sh <seed-dir containing patch.diff demo.py meta.json> <prop> [more props...]
# Confirms the seeded change (tests pass, demo fails with it / passes without) in the scratch worktree
# /tmp/mut and runs the given checks against it.  Never touches /repo.
SEED=$(readlink -f "$1"); shift
MUT=${MUT:-/tmp/mut}
[ -d $MUT ] || git -C /repo worktree add -q --detach $MUT HEAD
# the change is applied to the CURRENT /repo head when it still applies there (so that defects repaired since the seed
# was written do not show up as catches), otherwise to the commit it was written against (BASE)
cd $MUT && git checkout -q -- . && git clean -fdq && git checkout -q --detach main
if ! git apply --check $SEED/patch.diff 2>/dev/null; then git checkout -q --detach ${BASE:-main}; echo "base: ${BASE:-main} (does not apply to main)"; else echo "base: main"; fi
mkdir -p $MUT/_seed/x && cp $SEED/demo.py $MUT/_seed/x/demo.py
[ -f $SEED/common.py ] && cp $SEED/common.py $MUT/_seed/common.py   # helper shared by one agent's demos
/venv/bin/python _seed/x/demo.py >/dev/null 2>&1; echo "demo pristine exit=$? (want 0)"
git apply $SEED/patch.diff || { echo "PATCH DOES NOT APPLY"; exit 3; }
T=$(/venv/bin/python -m pytest -q -p no:cacheprovider 2>&1 | tail -1); echo "tests with patch: $T"
/venv/bin/python _seed/x/demo.py >/dev/null 2>&1; echo "demo patched exit=$? (want 1)"
for P in "$@"; do
  OUT=$(cd /verif && MPV_REPO=$MUT timeout 3000 ./check $P --no-evidence ${TIER:+--tier $TIER} 2>&1)
  echo "check $P exit=$? :: $(echo "$OUT" | grep -c '^VIOLATION') violation line(s)"
  echo "$OUT" | grep -E "signature|INCONCLUSIVE" | head -5
done
cd $MUT && git checkout -q -- . && git clean -fdq
